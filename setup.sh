#!/bin/sh
# Builds the engine offline from files on disk (module cache: golang.org/x/tools v0.29.0).
set -e
export GOFLAGS=-mod=mod GOPROXY=off GOSUMDB=off GOTOOLCHAIN=local CGO_ENABLED=0
mkdir -p /verif/bin /verif/evidence
cd /verif/engine && go build -o /verif/bin/vsym ./cmd/vsym
z3 --version >/dev/null
echo "vsym built"

#!/bin/sh
# Builds the engine offline from files on disk (module cache: golang.org/x/tools v0.29.0).
set -e
export GOFLAGS=-mod=mod GOPROXY=off GOSUMDB=off GOTOOLCHAIN=local CGO_ENABLED=0
V="$(cd "$(dirname "$0")" && pwd)"
mkdir -p "$V/bin" "$V/evidence"
cd "$V/engine" && go build -o "$V/bin/vsym" ./cmd/vsym
z3 --version >/dev/null
echo "vsym built"

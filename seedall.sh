#!/bin/sh
# usage: seedall.sh [round]  — runs the quick check of each stored seeded change (seeded/<ID>-<round>) against
# /repo with the change applied and prints one line per change; /repo is restored after each.
R="${1:-}"
cd /verif/seeded || exit 2
for d in */; do
  d=${d%/}
  case "$d" in fix-reverts) continue;; *-$R*) ;; *) continue;; esac
  P=${d%%-*}
  out=$(/verif/seedtest.sh "$P" "/verif/seeded/$d/patch.diff" 2>&1)
  rc=$(echo "$out" | sed -n 's/^exit=//p')
  ob=$(echo "$out" | grep VIOLATION | sed 's/.*obligation=\([^ ]*\).*/\1/' | sort -u | tr '\n' ' ')
  echo "$d exit=$rc caught_by=$ob"
done

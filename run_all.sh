#!/bin/sh
# Runs every claimed check (tier $1, default quick) on /repo's current tree and summarises.
TIER="${1:-quick}"
V="$(cd "$(dirname "$0")" && pwd)"
cd "$V"
mkdir -p "$V/.work"
REPO="${VERIF_REPO:-/repo}"
git -C "$REPO" diff --quiet || { echo "$REPO has uncommitted changes"; exit 2; }
for p in C01 C02 C03 C04 C05 C06 C07 C08 C09 C10 C11 C12 C13 C14 C15 C16 C17 C18 C19 C20; do
  s=$(date +%s)
  ./check $p $TIER > $V/.work/run_$p.log 2>&1
  rc=$?
  e=$(date +%s)
  echo "$p exit=$rc wall=$((e-s))s $(grep -c '^VIOLATION' $V/.work/run_$p.log) violations, $(grep -c '^KNOWN-FINDING' $V/.work/run_$p.log) known, $(grep -c 'INCONCLUSIVE\|unsupported x' $V/.work/run_$p.log) inconclusive-lines; $(grep '^property' $V/.work/run_$p.log | cut -c1-150)"
done

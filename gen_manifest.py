#!/usr/bin/env python3
"""Regenerates /verif/MANIFEST.json from the table below (kept in one place so that the
manifest is always valid and in step with the harnesses that exist)."""
import json, os
V = "/verif"
ALL = ["C%02d" % i for i in range(1, 21)]
# property -> (level text, level note, technique, design_ref)
CLAIMED = {}
NA = {}
exec(open(os.path.join(V, "manifest_table.py")).read())
# the bounds of the harnesses as they stand (harness/meta.json, also copied into every evidence
# file) are appended to the level text, so that the claim names what is explored today
META = json.load(open(os.path.join(V, "harness", "meta.json")))
for pid, c in CLAIMED.items():
    b = META.get(pid, {}).get("bounds", {})
    o = META.get(pid, {}).get("outside_claim", [])
    if b:
        c["text"] = c["text"].rstrip() + " Harnesses and bounds as they stand now (widened over eight rounds of seeded changes, DESIGN.md §8.4): " + "; ".join("%s: %s" % (k, v) for k, v in b.items()) + "." + (" Outside the claim: " + "; ".join(o) + "." if o else "")
checks = []
for pid in ALL:
    if pid in CLAIMED:
        c = CLAIMED[pid]
        checks.append({
            "property_id": pid,
            "quick_cmd": "./check %s quick" % pid,
            "thorough_cmd": "./check %s thorough" % pid,
            "evidence_file": "/verif/evidence/%s.json" % pid,
            "replay_cmd_template": "./bin/vsym replay %s {path}" % pid,
            "engine": "vsym",
            "level_claimed": {"category": "model_checking", "text": c["text"], "design_ref": c.get("ref", "DESIGN.md §3 " + pid)},
            "level_note": c["note"],
            "technique": c["technique"],
        })
na = [{"property_id": p, "reason": NA[p]} for p in ALL if p not in CLAIMED]
m = {
    "version": 1,
    "setup_cmd": "./setup.sh",
    "hooks": {
        "guard": "verif",
        "enable": "none needed: harnesses are injected with go/packages overlays (engine) and go test -overlay (native replay); /repo contains no guarded code",
        "baseline_off_cmd": "cd /repo && GOFLAGS=-mod=mod GOPROXY=off go test -vet=off -count=1 ./...",
        "source_commits": [],
        "add_only": True,
    },
    "engines": [{
        "name": "vsym",
        "path": "/verif/engine",
        "serves_properties": sorted(CLAIMED),
        "kind_free_text": "bounded symbolic executor for Go SSA (golang.org/x/tools/go/ssa) written for this task: bit-vector/boolean terms, explicit heap, decision-prefix path exploration, z3 4.8.12 incremental per worker with cvc5/z3-5.1 portfolio on unknown; every counterexample and a sample of path models are replayed against the real build (go test -overlay)",
    }],
    "checks": checks,
    "not_applicable": na,
    "notes": "All claimed checks are decided by SMT queries over symbolic executions of /repo's current source (regenerated on every run). Exit 1 + VIOLATION only for a solver counterexample reproduced natively; unknown/unsupported/budget are reported in the evidence as reduced coverage. Genuine defects repaired in /repo: see known_findings.json (status fixed) and DESIGN.md.",
}
json.dump(m, open(os.path.join(V, "MANIFEST.json"), "w"), indent=1)
print("claimed:", sorted(CLAIMED), "not applicable:", [x["property_id"] for x in na])

#!/bin/sh
# usage: seedconfirm.sh <worktree dir>  — confirms a seeded change: suite passes with it, demo fails with it, demo passes without.
D="$1"; cd "$D" || exit 2
export GOFLAGS=-mod=mod GOPROXY=off GOSUMDB=off GOTOOLCHAIN=local
git apply --check -R patch.diff 2>/dev/null || { git checkout -q -- . ; git apply patch.diff || { echo "cannot apply patch"; exit 2; }; }
go build ./... || { echo "BUILD FAILS"; exit 1; }
go test -vet=off -count=1 -skip 'TestSeedDemo' ./... > /tmp/sc.out 2>&1; s1=$?
go test -vet=off -count=1 -run 'TestSeedDemo' . > /tmp/sc2.out 2>&1; s2=$?
git apply -R patch.diff
go test -vet=off -count=1 -run 'TestSeedDemo' . > /tmp/sc3.out 2>&1; s3=$?
git apply patch.diff
echo "suite_with_change_exit=$s1 demo_with_change_exit=$s2 demo_without_change_exit=$s3"
rm -f /tmp/sc.out /tmp/sc2.out /tmp/sc3.out
[ $s1 -eq 0 ] && [ $s2 -ne 0 ] && [ $s3 -eq 0 ] && echo CONFIRMED || echo NOT-CONFIRMED

// vsym: bounded symbolic execution of the real Go code of /repo with SMT solvers.
//
//	vsym check <property> [--tier quick|thorough] [--only harnessSubstring] [-v]
//	vsym replay <property> <replay.json>
package main

import (
	"encoding/json"
	"flag"
	"fmt"
	"go/types"
	"os"
	"os/exec"
	"path/filepath"
	"runtime/debug"
	"runtime/pprof"
	"sort"
	"strings"
	"sync/atomic"
	"time"

	"golang.org/x/tools/go/packages"
	"golang.org/x/tools/go/ssa"
	"golang.org/x/tools/go/ssa/ssautil"

	vexec "vsym/exec"
	"vsym/solver"
)

const modPath = "github.com/mfcochauxlaberge/jsonapi"

var (
	verifDir = envOr("VERIF_DIR", "/verif")
	repoDir  = envOr("VERIF_REPO", "/repo")
)

func envOr(k, d string) string {
	if v := os.Getenv(k); v != "" {
		return v
	}
	return d
}

type Finding struct {
	ID       string `json:"id"`
	Property string `json:"property"`
	Status   string `json:"status"` // known | fixed
	What     string `json:"what"`
	Commit   string `json:"commit,omitempty"`
}

func loadFindings() []Finding {
	var fs []Finding
	b, err := os.ReadFile(filepath.Join(verifDir, "known_findings.json"))
	if err != nil {
		return nil
	}
	var doc struct {
		Findings []Finding `json:"findings"`
	}
	if err := json.Unmarshal(b, &doc); err != nil {
		fatal("known_findings.json: %v", err)
	}
	fs = doc.Findings
	return fs
}

func fatal(f string, a ...interface{}) {
	fmt.Fprintf(os.Stderr, "vsym: "+f+"\n", a...)
	os.Exit(2)
}

// harnessFiles returns overlay content for property prop: virtual path -> real path.
func harnessFiles(prop string, native bool) map[string]string {
	hd := filepath.Join(verifDir, "harness")
	m := map[string]string{}
	rt := "rt_sym.go.txt"
	if native {
		rt = "rt_native.go.txt"
	}
	m[filepath.Join(repoDir, "zz_verif_rt.go")] = filepath.Join(hd, rt)
	if native {
		m[filepath.Join(repoDir, "zz_verif_rt_json.go")] = filepath.Join(hd, "rt_native_json.go.txt")
		m[filepath.Join(repoDir, "zz_verif_rt_struct.go")] = filepath.Join(hd, "rt_native_struct.go.txt")
	}
	ents, _ := os.ReadDir(hd)
	lp := strings.ToLower(prop)
	for _, e := range ents {
		n := e.Name()
		if (strings.HasPrefix(n, lp) || strings.HasPrefix(n, "common")) && strings.HasSuffix(n, ".go.txt") {
			m[filepath.Join(repoDir, "zz_verif_"+strings.TrimSuffix(n, ".txt"))] = filepath.Join(hd, n)
		}
	}
	if native {
		m[filepath.Join(repoDir, "zz_verif_replay_test.go")] = filepath.Join(hd, "replay_test.go.txt")
	}
	return m
}

func goEnv() []string {
	return append(os.Environ(), "GOFLAGS=-mod=mod", "GOPROXY=off", "GOSUMDB=off", "GOTOOLCHAIN=local", "CGO_ENABLED=0")
}

type loaded struct {
	prog *ssa.Program
	pkg  *ssa.Package
	tpkg *packages.Package
}

func load(prop string) (*loaded, error) {
	ov := map[string][]byte{}
	for virt, real := range harnessFiles(prop, false) {
		b, err := os.ReadFile(real)
		if err != nil {
			return nil, err
		}
		ov[virt] = b
	}
	cfg := &packages.Config{
		Mode: packages.NeedName | packages.NeedFiles | packages.NeedCompiledGoFiles | packages.NeedImports | packages.NeedDeps |
			packages.NeedTypes | packages.NeedTypesSizes | packages.NeedSyntax | packages.NeedTypesInfo,
		Dir:     repoDir,
		Env:     goEnv(),
		Overlay: ov,
	}
	pkgs, err := packages.Load(cfg, ".")
	if err != nil {
		return nil, err
	}
	if len(pkgs) != 1 {
		return nil, fmt.Errorf("expected one package, got %d", len(pkgs))
	}
	var errs []string
	packages.Visit(pkgs, nil, func(p *packages.Package) {
		for _, e := range p.Errors {
			// body-less harness declarations are expected
			if strings.Contains(e.Msg, "missing function body") || strings.Contains(e.Msg, "func vNondet") {
				continue
			}
			errs = append(errs, fmt.Sprintf("%s: %s", e.Pos, e.Msg))
		}
	})
	if len(errs) > 0 {
		return nil, fmt.Errorf("load errors:\n%s", strings.Join(errs, "\n"))
	}
	prog, spkgs := ssautil.AllPackages(pkgs, ssa.InstantiateGenerics)
	prog.Build()
	return &loaded{prog: prog, pkg: spkgs[0], tpkg: pkgs[0]}, nil
}

type vecFile struct {
	Known   []string     `json:"known"`
	Tier    int          `json:"tier"`
	Vectors []nativeVect `json:"vectors"`
}

type nativeVect struct {
	*vexec.Vector
	Harness string `json:"harness"`
	Prop    string `json:"prop"`
	Tier    int    `json:"tier"` // the tier the vector was produced under (bounds depend on it)
}

type nativeResult struct {
	Match   bool             `json:"match"`
	Skipped bool             `json:"skipped"`
	Tries   int              `json:"tries"`
	Events  []vexec.EventOut `json:"events"`
}

// runNative executes the vectors against the real build (go test -overlay).
func runNative(prop string, harnessNames []string, vf *vecFile, work string, race bool) ([]nativeResult, string, error) {
	// registry file
	var sb strings.Builder
	sb.WriteString("package jsonapi\n\nvar vHarnesses = map[string]func(){\n")
	for _, h := range harnessNames {
		fmt.Fprintf(&sb, "\t%q: %s,\n", h, h)
	}
	sb.WriteString("}\n")
	reg := filepath.Join(work, "reg.go")
	if err := os.WriteFile(reg, []byte(sb.String()), 0o644); err != nil {
		return nil, "", err
	}
	repl := harnessFiles(prop, true)
	repl[filepath.Join(repoDir, "zz_verif_reg.go")] = reg
	ovb, _ := json.Marshal(map[string]interface{}{"Replace": repl})
	ovf := filepath.Join(work, "overlay.json")
	os.WriteFile(ovf, ovb, 0o644)
	vb, _ := json.Marshal(vf)
	vecPath := filepath.Join(work, "vectors.json")
	resPath := filepath.Join(work, "results.json")
	os.WriteFile(vecPath, vb, 0o644)
	os.Remove(resPath)
	args := []string{"test", "-vet=off", "-count=1", "-run", "^TestVerifReplay$", "-overlay", ovf, "-timeout", "20m"}
	env := append(goEnv(), "VERIF_VECTORS="+vecPath, "VERIF_RESULTS="+resPath)
	if race {
		args = append(args, "-race")
		env = append(env, "VERIF_RACE=1", "CGO_ENABLED=1", "GORACE=halt_on_error=0")
	}
	args = append(args, ".")
	cmd := exec.Command("go", args...)
	cmd.Dir = repoDir
	cmd.Env = env
	out, err := cmd.CombinedOutput()
	if race {
		// the race detector makes the test fail; what matters is its report
		var res []nativeResult
		if rb, e := os.ReadFile(resPath); e == nil {
			json.Unmarshal(rb, &res)
		}
		return res, string(out), nil
	}
	if err != nil {
		return nil, string(out), fmt.Errorf("native replay failed: %v", err)
	}
	rb, err := os.ReadFile(resPath)
	if err != nil {
		return nil, string(out), err
	}
	var res []nativeResult
	if err := json.Unmarshal(rb, &res); err != nil {
		return nil, string(out), err
	}
	return res, string(out), nil
}

func main() {
	debug.SetGCPercent(200)
	if len(os.Args) < 3 {
		fatal("usage: vsym check <property> [--tier quick|thorough] | vsym replay <property> <file>")
	}
	switch os.Args[1] {
	case "check":
		os.Exit(check(os.Args[2], os.Args[3:]))
	case "replay":
		if len(os.Args) < 4 {
			fatal("usage: vsym replay <property> <file>")
		}
		os.Exit(replay(os.Args[2], os.Args[3]))
	default:
		fatal("unknown command %q", os.Args[1])
	}
}

type harnessReport struct {
	Name        string                    `json:"name"`
	Paths       int64                     `json:"paths"`
	Decisions   int64                     `json:"decisions"`
	Infeasible  int64                     `json:"infeasible_prefixes"`
	Abandoned   int64                     `json:"abandoned_unknown"`
	Budget      bool                      `json:"budget_exhausted"`
	Unsupported map[string]int            `json:"unsupported,omitempty"`
	BoundHits   map[string]int            `json:"bound_hits,omitempty"`
	Obligations map[string]*vexec.ObStat  `json:"obligations"`
	Instr       int64                     `json:"ssa_instructions_executed"`
	WallS       float64                   `json:"wall_s"`
}

func check(prop string, args []string) int {
	fs := flag.NewFlagSet("check", flag.ExitOnError)
	tier := fs.String("tier", envOr("VERIF_TIER", "quick"), "quick|thorough")
	only := fs.String("only", "", "run only harnesses whose name contains this")
	verbose := fs.Bool("v", false, "verbose")
	workers := fs.Int("workers", 16, "parallel path workers")
	maxPaths := fs.Int64("max-paths", 0, "path budget per harness (0 = tier default)")
	noNative := fs.Bool("no-native", false, "skip native concordance/replay (debugging only; violations are then not reported)")
	cpuprof := fs.String("cpuprofile", "", "write CPU profile")
	solverKind := fs.String("solver", solverFor(prop), "incremental back end: z3 | cvc5 | z3-new")
	fs.Parse(args)
	if *cpuprof != "" {
		f, _ := os.Create(*cpuprof)
		pprof.StartCPUProfile(f)
		defer pprof.StopCPUProfile()
	}
	t0 := time.Now()
	tierN := 0
	if *tier == "thorough" {
		tierN = 1
	}
	seed := 0
	fmt.Sscan(os.Getenv("VERIF_SEED"), &seed)

	findings := loadFindings()
	known := map[string]bool{}
	what := map[string]string{}
	for _, f := range findings {
		if f.Status == "known" {
			known[f.ID] = true
		}
		what[f.ID] = f.What
	}

	pool := solver.Prestart(*solverKind, *workers, 3000)
	defer func() {
		for {
			select {
			case sv := <-pool:
				sv.Close()
			default:
				return
			}
		}
	}()
	ld, err := load(prop)
	if err != nil {
		// harness does not compile against the current tree: inconclusive, not a violation
		fmt.Printf("INCONCLUSIVE property=%s cannot load harness against current tree: %v\n", prop, err)
		writeEvidence(prop, *tier, seed, map[string]interface{}{
			"states": 1, "transitions": 1, "traces_validated_against_impl": 0,
			"samples": []string{"load failure"}, "load_error": err.Error(),
		}, nil, time.Since(t0).Seconds(), 0)
		return 0
	}
	debugRun = *only != "" || *noNative
	var hnames []string
	for name, m := range ld.pkg.Members {
		if f, ok := m.(*ssa.Function); ok && strings.HasPrefix(name, "vH_"+prop+"_") && f.Blocks != nil {
			if *only == "" || strings.Contains(name, *only) {
				hnames = append(hnames, name)
			}
		}
	}
	sort.Strings(hnames)
	if len(hnames) == 0 {
		fatal("no harness functions vH_%s_* found", prop)
	}
	var allH []string
	for name, m := range ld.pkg.Members {
		if f, ok := m.(*ssa.Function); ok && strings.HasPrefix(name, "vH_"+prop+"_") && f.Blocks != nil {
			allH = append(allH, name)
		}
	}
	sort.Strings(allH)

	p := &vexec.Program{Prog: ld.prog, Pkg: ld.pkg, Sizes: ld.tpkg.TypesSizes, Tier: tierN, Known: known, MaxInstr: 20_000_000}
	if p.Sizes == nil {
		p.Sizes = types.SizesFor("gc", "amd64")
	}
	cfg := vexec.RunConfig{SolverKind: *solverKind, Pool: pool, Workers: *workers, Verbose: *verbose, SolverMs: 3000, PortfolioS: 20, MaxPaths: 400000, Deadline: 8 * time.Minute}
	if tierN == 1 {
		cfg.SolverMs = 10000
		cfg.PortfolioS = 120
		cfg.MaxPaths = 4000000
		cfg.Deadline = 12 * time.Minute
		cfg.XCheckEvery = 50 // every 50th solver answer is re-decided by cvc5
		// a harness that exhausts its budget has then sampled its whole decision tree
		// (one pick in four takes a random frontier element) instead of one corner
		cfg.RandomPick = 0.25
		cfg.Seed = int64(seed)
	}
	if *maxPaths > 0 {
		cfg.MaxPaths = *maxPaths
	}

	var reports []*harnessReport
	var repaired int64
	vf := &vecFile{Tier: tierN}
	for k := range known {
		vf.Known = append(vf.Known, k)
	}
	sort.Strings(vf.Known)
	funcs := map[string]bool{}
	models := map[string]bool{}
	type vecRef struct {
		h   string
		vec *vexec.Vector
	}
	var refs []vecRef
	for _, hn := range hnames {
		h0 := time.Now()
		fn := ld.pkg.Func(hn)
		ex := vexec.Run(p, fn, prop, cfg)
		repaired += ex.Repaired
		rep := &harnessReport{Name: hn, Paths: ex.Paths, Decisions: ex.Decisions, Infeasible: ex.Infeasible, Abandoned: ex.Abandoned,
			Budget: ex.Budget, Unsupported: ex.Unsupported, BoundHits: ex.BoundHits, Obligations: ex.Obligations, Instr: ex.Instr,
			WallS: time.Since(h0).Seconds()}
		reports = append(reports, rep)
		for f := range ex.FuncsSeen {
			funcs[f] = true
		}
		for m := range ex.ModelsHit {
			models[m] = true
		}
		for _, v := range ex.Vectors {
			vf.Vectors = append(vf.Vectors, nativeVect{Vector: v, Harness: hn, Prop: prop, Tier: tierN})
			refs = append(refs, vecRef{hn, v})
		}
		fmt.Printf("harness %s: paths=%d decisions=%d unsupported=%d boundhits=%d budget_exhausted=%v wall=%.1fs\n",
			hn, ex.Paths, ex.Decisions, sumMap(ex.Unsupported), sumMap(ex.BoundHits), ex.Budget, rep.WallS)
		for msg, n := range ex.Unsupported {
			fmt.Printf("  unsupported x%d: %s\n", n, msg)
		}
	}

	// ---- native concordance and replay ----
	work := filepath.Join(verifDir, ".work", fmt.Sprintf("%s-%d", prop, os.Getpid())) // one directory per process: checks of one property may run side by side
	os.RemoveAll(work)
	os.MkdirAll(work, 0o755)
	defer os.RemoveAll(work)
	var results []nativeResult
	nativeOK := false
	nativeLog := ""
	if !*noNative && len(vf.Vectors) > 0 {
		var err error
		results, nativeLog, err = runNative(prop, allH, vf, work, false)
		if err != nil {
			fmt.Printf("INCONCLUSIVE property=%s native replay could not run: %v\n%s\n", prop, err, tail(nativeLog, 30))
		} else {
			nativeOK = true
		}
	}
	validated, mismatched, skipped := 0, 0, 0
	var mismatchSamples []map[string]interface{}
	violations := 0
	confirmedFindings := map[string]bool{}
	unreproduced := 0
	replayDir := filepath.Join(verifDir, "replays", prop)
	os.RemoveAll(replayDir)
	seenViol := map[string]int{}
	var violLines []string
	if nativeOK {
		for i, r := range results {
			v := vf.Vectors[i]
			switch v.Purpose {
			case "path":
				if r.Skipped {
					skipped++
				} else if r.Match {
					validated++
				} else {
					mismatched++
					if len(mismatchSamples) < 5 {
						mismatchSamples = append(mismatchSamples, map[string]interface{}{"harness": v.Harness, "inputs": v.Inputs, "expected": v.Expect, "native": r.Events})
					}
				}
			case "violation":
				if r.Match && !r.Skipped {
					seenViol[v.ID]++
					if seenViol[v.ID] <= 3 {
						os.MkdirAll(replayDir, 0o755)
						rp := filepath.Join(replayDir, fmt.Sprintf("%s-%d.json", sanitize(v.ID), seenViol[v.ID]))
						b, _ := json.MarshalIndent(v, "", " ")
						os.WriteFile(rp, b, 0o644)
						violLines = append(violLines, fmt.Sprintf("VIOLATION property=%s replay=%s obligation=%s harness=%s", prop, rp, v.ID, v.Harness))
					}
					violations++
				} else {
					unreproduced++
					if len(mismatchSamples) < 5 {
						mismatchSamples = append(mismatchSamples, map[string]interface{}{"unreproduced_counterexample": v.ID, "harness": v.Harness, "inputs": v.Inputs, "expected": v.Expect, "native": r.Events})
					}
				}
			case "confirm":
				if r.Match && !r.Skipped {
					confirmedFindings[v.ID] = true
				}
			}
		}
	}
	// a counterexample that did not reproduce in the shared test process may depend on state
	// the library keeps between calls (package-level caches, pools): the engine predicted it
	// from the program's initial state, so it is tried once more alone in a fresh process
	if nativeOK && unreproduced > 0 {
		retried := 0
		for i, r := range results {
			v := vf.Vectors[i]
			if v.Purpose != "violation" || strings.Contains(v.ID, "no-shared-write") || (r.Match && !r.Skipped) || seenViol[v.ID] >= 3 || retried >= 12 {
				continue
			}
			retried++
			one := &vecFile{Known: vf.Known, Tier: vf.Tier, Vectors: []nativeVect{v}}
			fwork := filepath.Join(work, "fresh")
			os.MkdirAll(fwork, 0o755)
			fres, _, ferr := runNative(prop, allH, one, fwork, false)
			if ferr != nil || len(fres) != 1 || !fres[0].Match || fres[0].Skipped {
				continue
			}
			seenViol[v.ID]++
			os.MkdirAll(replayDir, 0o755)
			rp := filepath.Join(replayDir, fmt.Sprintf("%s-%d.json", sanitize(v.ID), seenViol[v.ID]))
			b, _ := json.MarshalIndent(v, "", " ")
			os.WriteFile(rp, b, 0o644)
			violLines = append(violLines, fmt.Sprintf("VIOLATION property=%s replay=%s obligation=%s harness=%s (reproduced in a fresh process)", prop, rp, v.ID, v.Harness))
			violations++
			unreproduced--
		}
	}
	// shared-write counterexamples (C12) cannot fail natively in a sequential run: confirm them
	// by running the operation in several goroutines under the race detector
	if nativeOK && unreproduced > 0 {
		raceTried := map[string]bool{}
		for i, r := range results {
			v := vf.Vectors[i]
			if v.Purpose != "violation" || !strings.Contains(v.ID, "no-shared-write") || (r.Match && !r.Skipped) || raceTried[v.ID] || len(raceTried) >= 6 {
				continue
			}
			raceTried[v.ID] = true
			one := &vecFile{Known: vf.Known, Tier: vf.Tier, Vectors: []nativeVect{v}}
			rwork := filepath.Join(work, "race")
			os.MkdirAll(rwork, 0o755)
			_, rlog, _ := runNative(prop, allH, one, rwork, true)
			if strings.Contains(rlog, "WARNING: DATA RACE") {
				os.MkdirAll(replayDir, 0o755)
				rp := filepath.Join(replayDir, fmt.Sprintf("%s-race.json", sanitize(v.ID)))
				b, _ := json.MarshalIndent(v, "", " ")
				os.WriteFile(rp, b, 0o644)
				os.WriteFile(strings.TrimSuffix(rp, ".json")+".log", []byte(tail(rlog, 60)), 0o644)
				violLines = append(violLines, fmt.Sprintf("VIOLATION property=%s replay=%s obligation=%s harness=%s (data race confirmed by go test -race)", prop, rp, v.ID, v.Harness))
				violations++
				// the sibling vectors of the same obligation are the same finding
				for j, r2 := range results {
					if vf.Vectors[j].Purpose == "violation" && vf.Vectors[j].ID == v.ID && !(r2.Match && !r2.Skipped) {
						unreproduced--
					}
				}
			}
		}
		if unreproduced < 0 {
			unreproduced = 0
		}
	}
	for id := range confirmedFindings {
		if known[id] {
			fmt.Printf("KNOWN-FINDING: property=%s %s %s\n", prop, id, what[id])
		}
	}
	for _, l := range violLines {
		fmt.Println(l)
	}
	if mismatched > 0 || unreproduced > 0 {
		fmt.Printf("INCONCLUSIVE property=%s encoder/native disagreement: %d path vectors mismatched, %d counterexamples not reproduced (see evidence)\n", prop, mismatched, unreproduced)
	}

	// ---- evidence ----
	var states, transitions int64
	obl := map[string]*vexec.ObStat{}
	totalUnsupported, totalBound := 0, 0
	budget := false
	for _, r := range reports {
		states += r.Paths
		transitions += r.Decisions
		totalUnsupported += sumMap(r.Unsupported)
		totalBound += sumMap(r.BoundHits)
		budget = budget || r.Budget
		for id, o := range r.Obligations {
			if obl[id] == nil {
				obl[id] = &vexec.ObStat{Kind: o.Kind}
			}
			obl[id].Paths += o.Paths
			obl[id].Proved += o.Proved
			obl[id].Violated += o.Violated
			obl[id].Unknown += o.Unknown
			obl[id].Confirmed += o.Confirmed
		}
	}
	var vacuous []string
	for id, o := range obl {
		if o.Paths == 0 {
			vacuous = append(vacuous, id)
		}
	}
	var samples []interface{}
	for i, r := range refs {
		if i%maxInt(1, len(refs)/6) == 0 && len(samples) < 8 {
			samples = append(samples, map[string]interface{}{"harness": r.h, "purpose": r.vec.Purpose, "inputs": r.vec.Inputs, "predicted_events": r.vec.Expect})
		}
	}
	if len(samples) == 0 {
		samples = append(samples, "no path completed")
	}
	var oblTotal, oblProved int64
	for _, o := range obl {
		if o.Kind == "assert" {
			oblTotal += o.Paths
			oblProved += o.Proved
		}
	}
	bounds, outside, assumptions := readHarnessMeta(prop)
	fnames := keys(funcs)
	cov := map[string]interface{}{
		"states":                        maxInt64(states, 1),
		"transitions":                   maxInt64(transitions, 1),
		"traces_validated_against_impl": validated,
		"samples":                       samples,
		"explanation":                   "states = explored paths of the symbolic execution (each a set of inputs described by a path condition); transitions = decision points taken; every assertion is an SMT query over all inputs of its path",
		"functions_encoded":             fnames,
		"boundary_models_hit":           keys(models),
		"harnesses":                     reports,
		"obligation_detail":             obl,
		"obligations":                   oblTotal,
		"discharged":                    oblProved,
		"bounds":                        bounds,
		"outside_claim":                 outside,
		"queries_discharged": map[string]int64{
			"total": atomic.LoadInt64(&solver.Global.Queries), "sat": solver.Global.Sat, "unsat": solver.Global.Unsat,
			"unknown": solver.Global.Unknown, "errors": solver.Global.Errors, "portfolio_runs": solver.Global.Portfolio,
			"sat_by_model_repair_without_solver": repaired, "cross_checked_by_cvc5": solver.Global.CrossChecks, "solver_disagreements": solver.Global.Disagreements,
		},
		"solver_time_s":             float64(solver.Global.Nanos) / 1e9,
		"solvers":                   []string{"z3 4.8.12 (incremental, per worker)", "portfolio on unknown: cvc5 1.0.3, cvc5 --solve-bv-as-int=sum, z3 5.1.0"},
		"native_vectors_mismatched": mismatched,
		"native_vectors_skipped":    skipped,
		"counterexamples_unreproduced": unreproduced,
		"mismatch_samples":          mismatchSamples,
		"unsupported_paths":         totalUnsupported,
		"bound_hit_paths":           totalBound,
		"budget_exhausted":          budget,
		"search_order":              map[bool]string{false: "depth-first over decision prefixes (complete when budget_exhausted is false)", true: "depth-first with one pick in four taken at random from the frontier (seeded); complete when budget_exhausted is false, otherwise a sample of the whole decision tree"}[cfg.RandomPick > 0],
		"vacuous_obligations":       vacuous,
		"known_findings_confirmed":  keysB(confirmedFindings),
		"exhaustive":                !budget && totalUnsupported == 0 && totalBound == 0,
		"native_replay_ran":         nativeOK,
	}
	writeEvidence(prop, *tier, seed, cov, assumptions, time.Since(t0).Seconds(), violations)
	fmt.Printf("property %s: paths=%d decisions=%d queries=%d (unsat %d, sat %d, unknown %d) solver=%.1fs validated=%d mismatched=%d violations=%d wall=%.1fs\n",
		prop, states, transitions, solver.Global.Queries, solver.Global.Unsat, solver.Global.Sat, solver.Global.Unknown,
		float64(solver.Global.Nanos)/1e9, validated, mismatched, violations, time.Since(t0).Seconds())
	for id, o := range obl {
		if o.Kind == "assert" {
			fmt.Printf("  obligation %-40s paths=%d proved=%d violated=%d unknown=%d\n", id, o.Paths, o.Proved, o.Violated, o.Unknown)
		}
	}
	if violations > 0 {
		return 1
	}
	return 0
}

func replay(prop, file string) int {
	b, err := os.ReadFile(file)
	if err != nil {
		fatal("%v", err)
	}
	var v nativeVect
	if err := json.Unmarshal(b, &v); err != nil {
		fatal("%v", err)
	}
	ld, err := load(prop)
	if err != nil {
		fatal("%v", err)
	}
	var allH []string
	for name, m := range ld.pkg.Members {
		if f, ok := m.(*ssa.Function); ok && strings.HasPrefix(name, "vH_"+prop+"_") && f.Blocks != nil {
			allH = append(allH, name)
		}
	}
	sort.Strings(allH)
	vf := &vecFile{Vectors: []nativeVect{v}, Tier: v.Tier}
	for _, f := range loadFindings() {
		if f.Status == "known" {
			vf.Known = append(vf.Known, f.ID)
		}
	}
	work := filepath.Join(verifDir, ".work", fmt.Sprintf("%s-replay-%d", prop, os.Getpid()))
	os.RemoveAll(work)
	os.MkdirAll(work, 0o755)
	defer os.RemoveAll(work)
	res, log, err := runNative(prop, allH, vf, work, false)
	if err != nil {
		fmt.Println(log)
		fatal("%v", err)
	}
	eb, _ := json.MarshalIndent(res[0].Events, "", " ")
	fmt.Printf("inputs: %v\nnative events:\n%s\n", v.Inputs, eb)
	if res[0].Match {
		fmt.Printf("VIOLATION property=%s replay=%s obligation=%s (reproduced)\n", prop, file, v.ID)
		return 1
	}
	fmt.Println("not reproduced on the current tree")
	return 0
}

func readHarnessMeta(prop string) (bounds map[string]interface{}, outside []string, assumptions []string) {
	b, err := os.ReadFile(filepath.Join(verifDir, "harness", "meta.json"))
	if err != nil {
		return nil, nil, nil
	}
	var all map[string]struct {
		Bounds      map[string]interface{} `json:"bounds"`
		Outside     []string               `json:"outside_claim"`
		Assumptions []string               `json:"assumptions"`
	}
	if err := json.Unmarshal(b, &all); err != nil {
		return nil, nil, nil
	}
	m := all[prop]
	common := all["_common"]
	return m.Bounds, m.Outside, append(append([]string{}, common.Assumptions...), m.Assumptions...)
}

func writeEvidence(prop, tier string, seed int, cov map[string]interface{}, assumptions []string, wall float64, violations int) {
	ev := map[string]interface{}{
		"property_id": prop,
		"tier":        tier,
		"seed":        seed,
		"level":       "model_checking",
		"coverage":    cov,
		"assumptions": assumptions,
		"wall_s":      wall,
		"violations":  violations,
	}
	if assumptions == nil {
		ev["assumptions"] = []string{}
	}
	b, _ := json.MarshalIndent(ev, "", " ")
	if debugRun {
		// a partial run (--only, --no-native) never replaces the evidence of a full one
		os.MkdirAll(filepath.Join(verifDir, ".work"), 0o755)
		os.WriteFile(filepath.Join(verifDir, ".work", prop+".partial-evidence.json"), b, 0o644)
		return
	}
	os.MkdirAll(filepath.Join(verifDir, "evidence"), 0o755)
	os.WriteFile(filepath.Join(verifDir, "evidence", prop+".json"), b, 0o644)
}

// debugRun: set for partial runs (--only, --no-native).
var debugRun bool

// solverFor picks the incremental back end (z3 4.8.12 unless overridden; queries it leaves
// unknown go to the cvc5 / z3 5.1 portfolio).
func solverFor(prop string) string {
	if v := os.Getenv("VSYM_SOLVER"); v != "" {
		return v
	}
	return "z3"
}

func sumMap(m map[string]int) int {
	n := 0
	for _, v := range m {
		n += v
	}
	return n
}

func keys(m map[string]bool) []string {
	ks := make([]string, 0, len(m))
	for k := range m {
		ks = append(ks, k)
	}
	sort.Strings(ks)
	return ks
}

func keysB(m map[string]bool) []string { return keys(m) }

func maxInt(a, b int) int {
	if a > b {
		return a
	}
	return b
}

func maxInt64(a, b int64) int64 {
	if a > b {
		return a
	}
	return b
}

func sanitize(s string) string {
	return strings.Map(func(r rune) rune {
		if r >= 'a' && r <= 'z' || r >= 'A' && r <= 'Z' || r >= '0' && r <= '9' || r == '-' || r == '.' {
			return r
		}
		return '_'
	}, s)
}

func tail(s string, n int) string {
	ls := strings.Split(s, "\n")
	if len(ls) > n {
		ls = ls[len(ls)-n:]
	}
	return strings.Join(ls, "\n")
}

package exec

import (
	"fmt"
	"go/constant"
	"go/token"
	"go/types"
	"strings"
	"sync"
	"sync/atomic"
	"unicode/utf8"

	"golang.org/x/tools/go/ssa"

	"vsym/sym"
)

// Program is the shared, read-only part: the SSA program and configuration.
type Program struct {
	Prog      *ssa.Program
	Pkg       *ssa.Package // package jsonapi
	Sizes     types.Sizes
	Tier      int
	Known     map[string]bool // known finding ids
	MaxInstr  int64
	MapOrders int // 0 insertion order, 1 +reversed, 2 all permutations (only in functions enabled by vMapOrder)
}

// Interp executes one path.
type Interp struct {
	P      *Program
	Path   *Path
	Ctx    *sym.Ctx
	glob   map[*ssa.Global]*Value
	instr  int64
	frozen map[*Value]bool
	frozenMaps map[*Map]bool
	freezeOn bool
	mapSeq int
	depth  int
	mapOrderFns []string // function-name substrings in which map ranges fork over orders
	mapOrderMode int
	initDone map[string]bool
	curProp string
	curIns  ssa.Instruction
	urlQueries map[*Value]*Map
	renderInts, renderJSON, renderQuote bool
	seenFns map[*ssa.Function]bool
	pools    map[*Value][]Value
	syncMaps map[*Value]*Map
	onces    map[*Value]bool
	decoders map[*Value]*decState
	encoders map[*Value]Iface
}

// fnInfo numbers the SSA values of a function so that frames can use a slice.
type fnInfo struct {
	idx map[ssa.Value]int32
	n   int
}

var fnInfos sync.Map // *ssa.Function -> *fnInfo

func infoOf(f *ssa.Function) *fnInfo {
	if v, ok := fnInfos.Load(f); ok {
		return v.(*fnInfo)
	}
	fi := &fnInfo{idx: map[ssa.Value]int32{}}
	add := func(v ssa.Value) {
		fi.idx[v] = int32(fi.n)
		fi.n++
	}
	for _, p := range f.Params {
		add(p)
	}
	for _, fv := range f.FreeVars {
		add(fv)
	}
	for _, b := range f.Blocks {
		for _, ins := range b.Instrs {
			if v, ok := ins.(ssa.Value); ok {
				add(v)
			}
		}
	}
	fnInfos.Store(f, fi)
	return fi
}

type frame struct {
	fn     *ssa.Function
	info   *fnInfo
	env    []Value
	block  *ssa.BasicBlock
	prev   *ssa.BasicBlock
	defers []func()
	result Value
	caller *frame
}

func NewInterp(p *Program, path *Path) *Interp {
	return &Interp{P: p, Path: path, Ctx: path.Ctx, glob: map[*ssa.Global]*Value{}, frozen: map[*Value]bool{}, frozenMaps: map[*Map]bool{}, initDone: map[string]bool{}}
}

func (in *Interp) unsupported(format string, a ...interface{}) {
	panic(&Unsupported{fmt.Sprintf(format, a...)})
}

func (in *Interp) goPanic(msg string) {
	panic(&ProgPanic{Msg: msg})
}

// ---------- zero values and constants ----------

func (in *Interp) zero(t types.Type) Value {
	switch t := t.(type) {
	case *types.Basic:
		if w, _, ok := intInfo(t); ok {
			if w == 0 {
				return in.Ctx.F
			}
			return in.Ctx.BV(w, 0)
		}
		if isString(t) {
			return Str{}
		}
		if isFloat(t) {
			return float64(0)
		}
		if t.Kind() == types.UnsafePointer {
			return (*Value)(nil)
		}
		if t.Kind() == types.UntypedNil || t.Kind() == types.Invalid {
			return nil
		}
		if t.Info()&types.IsComplex != 0 {
			return complex128(0)
		}
		in.unsupported("zero of basic %s", t)
	case *types.Pointer:
		return (*Value)(nil)
	case *types.Slice:
		return Slice{}
	case *types.Map:
		return (*Map)(nil)
	case *types.Signature:
		return (*Closure)(nil)
	case *types.Interface:
		return Iface{}
	case *types.Chan:
		return nil
	case *types.Struct:
		s := make(Struct, t.NumFields())
		for i := range s {
			s[i] = in.zero(t.Field(i).Type())
		}
		return s
	case *types.Array:
		a := make(Array, int(t.Len()))
		for i := range a {
			a[i] = in.zero(t.Elem())
		}
		return a
	case *types.Named:
		return in.zero(t.Underlying())
	case *types.Alias:
		return in.zero(types.Unalias(t))
	case *types.Tuple:
		tu := make(Tuple, t.Len())
		for i := range tu {
			tu[i] = in.zero(t.At(i).Type())
		}
		return tu
	case *types.TypeParam:
		in.unsupported("zero of type parameter")
	}
	in.unsupported("zero of %T", t)
	return nil
}

func (in *Interp) constVal(c *ssa.Const) Value {
	t := c.Type()
	if c.Value == nil {
		return in.zero(t)
	}
	if w, signed, ok := intInfo(t); ok {
		if w == 0 {
			return in.Ctx.Bool(constant.BoolVal(c.Value))
		}
		if signed {
			return in.Ctx.BV(w, uint64(c.Int64()))
		}
		return in.Ctx.BV(w, c.Uint64())
	}
	if isString(t) {
		return Str{S: constant.StringVal(c.Value)}
	}
	if isFloat(t) {
		return c.Float64()
	}
	in.unsupported("constant of type %s", t)
	return nil
}

func copyVal(v Value) Value {
	switch v := v.(type) {
	case Struct:
		c := make(Struct, len(v))
		for i := range v {
			c[i] = copyVal(v[i])
		}
		return c
	case Array:
		c := make(Array, len(v))
		for i := range v {
			c[i] = copyVal(v[i])
		}
		return c
	}
	return v
}

// ---------- memory ----------

func (in *Interp) load(p *Value) Value {
	if p == nil {
		in.goPanic("nil pointer dereference")
	}
	return copyVal(*p)
}

func (in *Interp) checkWrite(p *Value) {
	if in.freezeOn && in.frozen[p] {
		panic(&SharedWrite{})
	}
}

// SharedWrite is raised when the program writes to a cell frozen by vFreeze (C12).
type SharedWrite struct{ Where string }

func (in *Interp) store(p *Value, v Value) {
	if p == nil {
		in.goPanic("nil pointer dereference")
	}
	in.checkWrite(p)
	// storing a struct/array into a cell that holds one must keep field addresses
	// stable (pointers into the old aggregate stay valid): copy element-wise.
	storeInto(p, v)
}

func storeInto(p *Value, v Value) {
	switch nv := v.(type) {
	case Struct:
		if old, ok := (*p).(Struct); ok && len(old) == len(nv) {
			for i := range nv {
				storeInto(&old[i], nv[i])
			}
			return
		}
	case Array:
		if old, ok := (*p).(Array); ok && len(old) == len(nv) {
			for i := range nv {
				storeInto(&old[i], nv[i])
			}
			return
		}
	}
	*p = copyVal(v)
}

func (in *Interp) global(g *ssa.Global) *Value {
	if p, ok := in.glob[g]; ok {
		return p
	}
	p := new(Value)
	*p = in.zero(deref(g.Type()))
	in.glob[g] = p
	// sentinel error variables of packages whose initialiser is not run (strconv.ErrRange,
	// strconv.ErrSyntax, io.EOF, ...): distinct non-nil error values
	if g.Pkg != nil && !initAllow[g.Pkg.Pkg.Path()] {
		if _, isIface := deref(g.Type()).Underlying().(*types.Interface); isIface &&
			(strings.HasPrefix(g.Name(), "Err") || strings.HasPrefix(g.Name(), "err") || g.Name() == "EOF") {
			*p = in.newError(Str{S: g.Pkg.Pkg.Path() + "." + g.Name()})
		}
	}
	// lazily run the package initialiser of allow-listed packages
	if g.Pkg != nil {
		in.ensureInit(g.Pkg)
	}
	return p
}

var initAllow = map[string]bool{"github.com/mfcochauxlaberge/jsonapi": true, "time": false, "encoding/base64": true} // base64: its encodings are built by the initialiser (run lazily, only on paths that touch them)

func (in *Interp) ensureInit(pkg *ssa.Package) {
	path := pkg.Pkg.Path()
	if in.initDone[path] || !initAllow[path] {
		return
	}
	in.initDone[path] = true
	if f := pkg.Func("init"); f != nil && f.Blocks != nil {
		in.callSSA(f, nil, nil)
	}
}

// ---------- operand fetch ----------

func (in *Interp) get(fr *frame, v ssa.Value) Value {
	switch v := v.(type) {
	case *ssa.Const:
		return in.constVal(v)
	case *ssa.Global:
		return in.global(v)
	case *ssa.Function:
		return v
	case *ssa.Builtin:
		return v
	}
	if i, ok := fr.info.idx[v]; ok {
		return fr.env[i]
	}
	panic(fmt.Sprintf("get: no value for %T %s = %s in %s", v, v.Name(), v, fr.fn))
}

func term(v Value) *sym.Term {
	t, ok := v.(*sym.Term)
	if !ok {
		panic(&Unsupported{fmt.Sprintf("expected scalar term, got %T", v)})
	}
	return t
}

// concInt concretises an integer value (forking if symbolic) and returns it signed.
func (in *Interp) concInt(v Value, what string) int {
	t := term(v)
	if t.IsConst() {
		return int(t.Int())
	}
	u := in.Path.Concretize(t, what)
	return int(sym.SignExtend(u, t.W))
}

// ---------- calls ----------

type Intrinsic func(in *Interp, fr *frame, call *ssa.CallCommon, args []Value) Value

var intrinsics = map[string]Intrinsic{}

func (in *Interp) call(fr *frame, fnv Value, call *ssa.CallCommon, args []Value) Value {
	switch f := fnv.(type) {
	case *ssa.Function:
		return in.callFn(fr, f, call, args, nil)
	case *Closure:
		if f == nil {
			in.goPanic("call of nil function")
		}
		return in.callFn(fr, f.Fn, call, args, f.Env)
	case *ssa.Builtin:
		return in.builtin(fr, f, call, args)
	case Intrinsic:
		return f(in, fr, call, args)
	}
	in.unsupported("call of %T", fnv)
	return nil
}

func (in *Interp) callFn(fr *frame, f *ssa.Function, call *ssa.CallCommon, args []Value, env []Value) Value {
	fm := metaOf(f)
	name := fm.name
	if fm.isInit && len(args) == 0 {
		// package initialisers: only allow-listed packages are initialised
		path := f.Pkg.Pkg.Path()
		if !initAllow[path] {
			return nil
		}
		in.initDone[path] = true
	}
	if fm.intr != nil {
		r := fm.intr(in, fr, call, args)
		if _, fall := r.(fallThrough); !fall {
			return r
		}
	}
	if f.Blocks == nil {
		in.unsupported("call of external function %s", name)
	}
	return in.callSSA(f, args, env)
}

// fnMeta caches what is derived from a function's name.
type fnMeta struct {
	name   string
	intr   Intrinsic
	isInit bool
	inPkg  bool
}

var fnMetas sync.Map

func metaOf(f *ssa.Function) *fnMeta {
	if v, ok := fnMetas.Load(f); ok {
		return v.(*fnMeta)
	}
	m := &fnMeta{name: f.String()}
	if f.Origin() != nil {
		m.name = f.Origin().String()
	}
	m.intr = intrinsics[m.name]
	m.isInit = f.Pkg != nil && f.Name() == "init" && f.Signature.Recv() == nil && f.Parent() == nil
	fnMetas.Store(f, m)
	return m
}

// fallThrough is returned by an intrinsic that declines (e.g. symbolic arguments where
// only a concrete fast path is implemented) so that the real SSA body is interpreted.
type fallThrough struct{}

func (in *Interp) callSSA(f *ssa.Function, args []Value, env []Value) Value {
	in.depth++
	if in.depth > 400 {
		panic(&BoundHit{"call depth"})
	}
	defer func() { in.depth-- }()
	fi := infoOf(f)
	fr := &frame{fn: f, info: fi, env: make([]Value, fi.n)}
	for i := range f.Params {
		fr.env[i] = args[i]
	}
	for i := range f.FreeVars {
		fr.env[len(f.Params)+i] = env[i]
	}
	fr.block = f.Blocks[0]
	if f.Pkg != nil && f.Pkg == in.P.Pkg {
		if in.seenFns == nil {
			in.seenFns = map[*ssa.Function]bool{}
		}
		in.seenFns[f] = true
	}
	in.runFrame(fr)
	return fr.result
}

// flushFuncs merges the functions executed on this path into the run's set.
func (in *Interp) flushFuncs() {
	if len(in.seenFns) == 0 {
		return
	}
	ex := in.Path.Ex
	ex.resMu.Lock()
	for f := range in.seenFns {
		ex.FuncsSeen[metaOf(f).name] = true
	}
	ex.resMu.Unlock()
}

func (in *Interp) noteModel(name string) {
	ex := in.Path.Ex
	ex.resMu.Lock()
	ex.ModelsHit[name] = true
	ex.resMu.Unlock()
}

func (in *Interp) runFrame(fr *frame) {
	defer func() {
		// run deferred calls on panic (no recover support: re-panic afterwards)
		if len(fr.defers) == 0 {
			return
		}
		if r := recover(); r != nil {
			for i := len(fr.defers) - 1; i >= 0; i-- {
				d := fr.defers[i]
				fr.defers = fr.defers[:i]
				func() {
					defer func() { recover() }()
					d()
				}()
			}
			panic(r)
		}
	}()
	for {
		b := fr.block
		var next *ssa.BasicBlock
	instrs:
		for _, ins := range b.Instrs {
			in.instr++
			in.curIns = ins
			if in.instr > in.P.MaxInstr {
				panic(&BoundHit{"instruction budget"})
			}
			switch ins := ins.(type) {
			case *ssa.DebugRef:
			case *ssa.Phi:
				for i, pred := range b.Preds {
					if pred == fr.prev {
						fr.env[fr.info.idx[ins]] = in.get(fr, ins.Edges[i])
						break
					}
				}
			case *ssa.Jump:
				next = b.Succs[0]
				break instrs
			case *ssa.If:
				c := term(in.get(fr, ins.Cond))
				if in.Path.Branch(c) {
					next = b.Succs[0]
				} else {
					next = b.Succs[1]
				}
				break instrs
			case *ssa.Return:
				switch len(ins.Results) {
				case 0:
				case 1:
					fr.result = in.get(fr, ins.Results[0])
				default:
					tu := make(Tuple, len(ins.Results))
					for i, r := range ins.Results {
						tu[i] = in.get(fr, r)
					}
					fr.result = tu
				}
				return
			case *ssa.Panic:
				v := in.get(fr, ins.X)
				panic(&ProgPanic{Msg: "explicit panic", Val: v})
			case *ssa.RunDefers:
				for i := len(fr.defers) - 1; i >= 0; i-- {
					d := fr.defers[i]
					fr.defers = fr.defers[:i]
					d()
				}
			case *ssa.Defer:
				fnv, args := in.prepareCall(fr, &ins.Call)
				cc := &ins.Call
				fr.defers = append(fr.defers, func() { in.call(fr, fnv, cc, args) })
			case *ssa.Go:
				in.unsupported("go statement")
			case *ssa.Send, *ssa.Select:
				in.unsupported("channel operation")
			case *ssa.Store:
				p := in.get(fr, ins.Addr).(*Value)
				in.store(p, in.get(fr, ins.Val))
			case *ssa.MapUpdate:
				m := in.get(fr, ins.Map).(*Map)
				in.mapUpdate(m, in.get(fr, ins.Key), in.get(fr, ins.Value))
			case ssa.Value:
				fr.env[fr.info.idx[ins]] = in.evalInstr(fr, ins)
			default:
				in.unsupported("instruction %T", ins)
			}
		}
		if next == nil {
			panic(fmt.Sprintf("block %s of %s fell through", b, fr.fn))
		}
		fr.prev = b
		fr.block = next
	}
}

func (in *Interp) prepareCall(fr *frame, c *ssa.CallCommon) (Value, []Value) {
	var fnv Value
	var args []Value
	if c.IsInvoke() {
		recv := in.get(fr, c.Value)
		ifc, ok := recv.(Iface)
		if !ok {
			in.unsupported("invoke on %T", recv)
		}
		if ifc.T == nil {
			in.goPanic("nil pointer dereference (method call on nil interface)")
		}
		fnv = in.lookupMethod(ifc.T, c.Method)
		args = append(args, ifc.V)
	} else {
		fnv = in.get(fr, c.Value)
	}
	for _, a := range c.Args {
		args = append(args, in.get(fr, a))
	}
	return fnv, args
}

func (in *Interp) lookupMethod(t types.Type, m *types.Func) Value {
	// intrinsic override for methods of modelled dynamic types
	f := in.P.Prog.LookupMethod(t, m.Pkg(), m.Name())
	if f == nil {
		in.unsupported("no method %s on %s", m.Name(), t)
	}
	return f
}

func (in *Interp) evalInstr(fr *frame, ins ssa.Value) Value {
	switch ins := ins.(type) {
	case *ssa.Call:
		fnv, args := in.prepareCall(fr, &ins.Call)
		return in.call(fr, fnv, &ins.Call, args)
	case *ssa.Alloc:
		p := new(Value)
		*p = in.zero(deref(ins.Type()))
		return p
	case *ssa.UnOp:
		return in.unop(fr, ins)
	case *ssa.BinOp:
		return in.binop(ins.Op, ins.X.Type(), in.get(fr, ins.X), in.get(fr, ins.Y), ins.Y.Type())
	case *ssa.Convert:
		return in.convert(ins.X.Type(), ins.Type(), in.get(fr, ins.X))
	case *ssa.ChangeType:
		return in.get(fr, ins.X)
	case *ssa.MultiConvert:
		return in.convert(ins.X.Type(), ins.Type(), in.get(fr, ins.X))
	case *ssa.ChangeInterface:
		return in.get(fr, ins.X)
	case *ssa.MakeInterface:
		return Iface{T: ins.X.Type(), V: in.get(fr, ins.X)}
	case *ssa.Extract:
		return in.get(fr, ins.Tuple).(Tuple)[ins.Index]
	case *ssa.Field:
		return in.get(fr, ins.X).(Struct)[ins.Field]
	case *ssa.FieldAddr:
		p := in.get(fr, ins.X).(*Value)
		if p == nil {
			in.goPanic("nil pointer dereference")
		}
		return &(*p).(Struct)[ins.Field]
	case *ssa.Index:
		x := in.get(fr, ins.X)
		i := in.concInt(in.get(fr, ins.Index), "index")
		switch x := x.(type) {
		case Array:
			if i < 0 || i >= len(x) {
				in.goPanic("index out of range")
			}
			return x[i]
		case Str:
			if x.Opq != nil && x.Opq.JSON != nil && i == 0 {
				return in.jsonFirstByte(x.Opq.JSON)
			}
			if i < 0 || i >= x.Len() {
				in.goPanic("index out of range")
			}
			return in.strAt(x, i)
		}
		in.unsupported("Index on %T", x)
	case *ssa.IndexAddr:
		x := in.get(fr, ins.X)
		i := in.concInt(in.get(fr, ins.Index), "index")
		switch x := x.(type) {
		case Slice:
			if x.JSON != nil {
				cell := new(Value)
				if i == 0 {
					*cell = in.jsonFirstByte(x.JSON)
					return cell
				}
				if b, ok := in.jsonRender(x.JSON); ok {
					if i < 0 || i >= len(b) {
						in.goPanic("index out of range")
					}
					*cell = b[i]
					return cell
				}
				in.unsupported("element address of JSON text")
			}
			if i < 0 || i >= x.Len {
				in.goPanic(fmt.Sprintf("index out of range [%d] with length %d", i, x.Len))
			}
			return &x.Back[i]
		case *Value: // *array
			if x == nil {
				in.goPanic("nil pointer dereference")
			}
			a := (*x).(Array)
			if i < 0 || i >= len(a) {
				in.goPanic("index out of range")
			}
			return &a[i]
		}
		in.unsupported("IndexAddr on %T", x)
	case *ssa.Lookup:
		return in.lookup(fr, ins)
	case *ssa.MakeMap:
		mt := ins.Type().Underlying().(*types.Map)
		in.mapSeq++
		return &Map{KeyT: mt.Key(), ValT: mt.Elem(), ID: in.mapSeq}
	case *ssa.MakeSlice:
		n := in.concInt(in.get(fr, ins.Len), "make length")
		c := in.concInt(in.get(fr, ins.Cap), "make capacity")
		if n < 0 {
			in.goPanic("makeslice: len out of range")
		}
		if c < n {
			in.goPanic("makeslice: cap out of range")
		}
		if c > 1<<20 {
			in.unsupported("huge make")
		}
		et := ins.Type().Underlying().(*types.Slice).Elem()
		back := make([]Value, c)
		for i := range back {
			back[i] = in.zero(et)
		}
		return Slice{Back: back, Len: n}
	case *ssa.MakeClosure:
		c := &Closure{Fn: ins.Fn.(*ssa.Function)}
		for _, b := range ins.Bindings {
			c.Env = append(c.Env, in.get(fr, b))
		}
		return c
	case *ssa.Slice:
		return in.sliceOp(fr, ins)
	case *ssa.TypeAssert:
		return in.typeAssert(fr, ins)
	case *ssa.Range:
		x := in.get(fr, ins.X)
		switch x := x.(type) {
		case *Map:
			return in.mapRange(fr, x)
		case Str:
			if !x.IsConc() {
				// byte-wise iteration is exact for ASCII; require concrete content otherwise
				in.unsupported("range over symbolic string")
			}
			return &StrIter{S: x.S}
		}
		in.unsupported("range over %T", x)
	case *ssa.Next:
		it := in.get(fr, ins.Iter)
		switch it := it.(type) {
		case *MapIter:
			for it.I < len(it.Ents) {
				e := it.Ents[it.I]
				it.I++
				if e.Deleted {
					continue
				}
				return Tuple{in.Ctx.T, e.K, copyVal(e.V)}
			}
			tt := ins.Type().(*types.Tuple)
			return Tuple{in.Ctx.F, in.zero(tt.At(1).Type()), in.zero(tt.At(2).Type())}
		case *StrIter:
			if it.I >= len(it.S) {
				return Tuple{in.Ctx.F, in.Ctx.BV(64, 0), in.Ctx.BV(32, 0)}
			}
			i := it.I
			r, sz := utf8.DecodeRuneInString(it.S[i:])
			it.I += sz
			return Tuple{in.Ctx.T, in.Ctx.BV(64, uint64(i)), in.Ctx.BV(32, uint64(r))}
		}
		in.unsupported("Next on %T", it)
	case *ssa.SliceToArrayPointer:
		in.unsupported("SliceToArrayPointer")
	case *ssa.MakeChan:
		in.unsupported("MakeChan")
	}
	in.unsupported("instruction %T", ins)
	return nil
}

func (in *Interp) unop(fr *frame, ins *ssa.UnOp) Value {
	x := in.get(fr, ins.X)
	switch ins.Op {
	case token.MUL:
		p, ok := x.(*Value)
		if !ok {
			in.unsupported("load through %T", x)
		}
		return in.load(p)
	case token.NOT:
		return in.Ctx.Not(term(x))
	case token.SUB:
		if f, ok := x.(float64); ok {
			return -f
		}
		return in.Ctx.Neg(term(x))
	case token.XOR:
		return in.Ctx.BNot(term(x))
	case token.ARROW:
		in.unsupported("channel receive")
	}
	in.unsupported("unop %s", ins.Op)
	return nil
}

func (in *Interp) strAt(s Str, i int) *sym.Term {
	if s.Opq != nil && s.Opq.JSON != nil && i == 0 {
		return in.jsonFirstByte(s.Opq.JSON)
	}
	if s.Opq != nil {
		in.unsupported("byte of opaque string")
	}
	if s.B != nil {
		return s.B[i]
	}
	return in.Ctx.BV(8, uint64(s.S[i]))
}

func (in *Interp) mkStr(b []*sym.Term) Str {
	conc := true
	for _, t := range b {
		if !t.IsConst() {
			conc = false
			break
		}
	}
	if conc {
		bs := make([]byte, len(b))
		for i, t := range b {
			bs[i] = byte(t.Val)
		}
		return Str{S: string(bs)}
	}
	return Str{B: b}
}

func (in *Interp) strBytes(s Str) []*sym.Term {
	if s.Opq != nil {
		in.unsupported("bytes of opaque string (%s)", s.Opq.What)
	}
	if s.B != nil {
		return s.B
	}
	b := make([]*sym.Term, len(s.S))
	for i := range b {
		b[i] = in.Ctx.BV(8, uint64(s.S[i]))
	}
	return b
}

func (in *Interp) strConcat(a, b Str) Str {
	if a.Opq == nil && a.B == nil && a.S == "" {
		return b
	}
	if b.Opq == nil && b.B == nil && b.S == "" {
		return a
	}
	if a.Opq != nil || b.Opq != nil {
		nn := false
		if a.Opq != nil && a.Opq.NotNilWord || b.Opq != nil && b.Opq.NotNilWord {
			nn = false
		}
		return Str{Opq: &Opaque{What: "concatenation with opaque text", NotNilWord: nn}}
	}
	if a.IsConc() && b.IsConc() {
		return Str{S: a.S + b.S}
	}
	if a.Len() == 0 {
		return b
	}
	if b.Len() == 0 {
		return a
	}
	r := append(append([]*sym.Term{}, in.strBytes(a)...), in.strBytes(b)...)
	return Str{B: r}
}

// strEq returns the term a == b.
func (in *Interp) strEq(a, b Str) *sym.Term {
	if a.Opq != nil || b.Opq != nil {
		if a.Opq != nil && b.Opq != nil && a.Opq == b.Opq {
			return in.Ctx.T
		}
		o, other := a.Opq, b
		if o == nil {
			o, other = b.Opq, a
		}
		if o.NotNilWord && other.IsConc() && other.S == "<nil>" {
			return in.Ctx.F
		}
		if o.Ptr != nil {
			if other.Opq != nil && other.Opq.Ptr != nil {
				return in.Ctx.Bool(o.Ptr == other.Opq.Ptr)
			}
			if other.Opq == nil && other.Len() < 3 {
				return in.Ctx.F
			}
			if other.Opq == nil && other.IsConc() && !strings.HasPrefix(other.S, "0x") {
				return in.Ctx.F
			}
		}
		if o.JSON != nil && other.IsConc() {
			if r, ok := in.jsonTextEqTerm(o.JSON, other.S); ok {
				return r
			}
		}
		in.unsupported("comparison with opaque string (%s)", o.What)
	}
	if a.IsConc() && b.IsConc() {
		return in.Ctx.Bool(a.S == b.S)
	}
	if a.Len() != b.Len() {
		return in.Ctx.F
	}
	r := in.Ctx.T
	for i := a.Len() - 1; i >= 0; i-- {
		r = in.Ctx.And(in.Ctx.Eq(in.strAt(a, i), in.strAt(b, i)), r)
	}
	return r
}

// strLt returns the term a < b (lexicographic byte order).
func (in *Interp) strLt(a, b Str) *sym.Term {
	if a.IsConc() && b.IsConc() {
		return in.Ctx.Bool(a.S < b.S)
	}
	la, lb := a.Len(), b.Len()
	n := la
	if lb < n {
		n = lb
	}
	r := in.Ctx.Bool(la < lb)
	for i := n - 1; i >= 0; i-- {
		x, y := in.strAt(a, i), in.strAt(b, i)
		r = in.Ctx.Or(in.Ctx.Cmp(sym.OpUlt, x, y), in.Ctx.And(in.Ctx.Eq(x, y), r))
	}
	return r
}

func (in *Interp) binop(op token.Token, xt types.Type, x, y Value, yt types.Type) Value {
	c := in.Ctx
	// comparison against nil and identity comparisons
	switch op {
	case token.EQL:
		return in.equal(xt, x, y)
	case token.NEQ:
		return c.Not(in.equal(xt, x, y))
	}
	if isString(xt) {
		a, b := x.(Str), y.(Str)
		switch op {
		case token.ADD:
			return in.strConcat(a, b)
		case token.LSS:
			return in.strLt(a, b)
		case token.GTR:
			return in.strLt(b, a)
		case token.LEQ:
			return c.Not(in.strLt(b, a))
		case token.GEQ:
			return c.Not(in.strLt(a, b))
		}
	}
	if isFloat(xt) {
		a, b := x.(float64), y.(float64)
		switch op {
		case token.ADD:
			return a + b
		case token.SUB:
			return a - b
		case token.MUL:
			return a * b
		case token.QUO:
			return a / b
		case token.LSS:
			return c.Bool(a < b)
		case token.LEQ:
			return c.Bool(a <= b)
		case token.GTR:
			return c.Bool(a > b)
		case token.GEQ:
			return c.Bool(a >= b)
		}
	}
	w, signed, ok := intInfo(xt)
	if !ok {
		in.unsupported("binop %s on %s", op, xt)
	}
	a, b := term(x), term(y)
	if w == 0 {
		switch op {
		case token.AND, token.LAND:
			return c.And(a, b)
		case token.OR, token.LOR:
			return c.Or(a, b)
		}
		in.unsupported("bool binop %s", op)
	}
	switch op {
	case token.ADD:
		return c.Bin(sym.OpAdd, a, b)
	case token.SUB:
		return c.Bin(sym.OpSub, a, b)
	case token.MUL:
		return c.Bin(sym.OpMul, a, b)
	case token.QUO, token.REM:
		if in.Path.Branch(c.Eq(b, c.BV(w, 0))) {
			in.goPanic("integer divide by zero")
		}
		if signed {
			if op == token.QUO {
				return c.Bin(sym.OpSDiv, a, b)
			}
			return c.Bin(sym.OpSRem, a, b)
		}
		if op == token.QUO {
			return c.Bin(sym.OpUDiv, a, b)
		}
		return c.Bin(sym.OpURem, a, b)
	case token.AND:
		return c.Bin(sym.OpBAnd, a, b)
	case token.OR:
		return c.Bin(sym.OpBOr, a, b)
	case token.XOR:
		return c.Bin(sym.OpBXor, a, b)
	case token.AND_NOT:
		return c.Bin(sym.OpBAnd, a, c.BNot(b))
	case token.SHL, token.SHR:
		yw, ysigned, _ := intInfo(yt)
		if ysigned {
			if in.Path.Branch(c.Cmp(sym.OpSlt, b, c.BV(yw, 0))) {
				in.goPanic("negative shift amount")
			}
		}
		// bring the count to width w, saturating at w
		var cnt *sym.Term
		if yw > w {
			big := c.Cmp(sym.OpUle, c.BV(yw, uint64(w)), b)
			cnt = c.Ite(big, c.BV(w, uint64(w)), c.Extract(b, 0, w))
		} else {
			cnt = c.ZExt(b, w)
		}
		if op == token.SHL {
			return c.Bin(sym.OpShl, a, cnt)
		}
		if signed {
			return c.Bin(sym.OpAShr, a, cnt)
		}
		return c.Bin(sym.OpLShr, a, cnt)
	case token.LSS:
		if signed {
			return c.Cmp(sym.OpSlt, a, b)
		}
		return c.Cmp(sym.OpUlt, a, b)
	case token.LEQ:
		if signed {
			return c.Cmp(sym.OpSle, a, b)
		}
		return c.Cmp(sym.OpUle, a, b)
	case token.GTR:
		if signed {
			return c.Cmp(sym.OpSlt, b, a)
		}
		return c.Cmp(sym.OpUlt, b, a)
	case token.GEQ:
		if signed {
			return c.Cmp(sym.OpSle, b, a)
		}
		return c.Cmp(sym.OpUle, b, a)
	}
	in.unsupported("binop %s", op)
	return nil
}

// equal returns the term x == y for values of static type t.
func (in *Interp) equal(t types.Type, x, y Value) *sym.Term {
	c := in.Ctx
	switch t := t.Underlying().(type) {
	case *types.Basic:
		if isString(t) {
			return in.strEq(x.(Str), y.(Str))
		}
		if isFloat(t) {
			bx, okx := x.(JNumBox)
			by, oky := y.(JNumBox)
			if okx || oky {
				// decoded JSON numbers that stayed symbolic: equal to themselves
				if okx && oky && bx.N == by.N {
					return c.T
				}
				in.unsupported("comparison of a symbolic decoded JSON number")
			}
			return c.Bool(x.(float64) == y.(float64))
		}
		if t.Kind() == types.UnsafePointer {
			return c.Bool(x.(*Value) == y.(*Value))
		}
		if t.Kind() == types.UntypedNil {
			return c.T
		}
		return c.Eq(term(x), term(y))
	case *types.Pointer:
		if rx, ok := x.(RType); ok {
			ry, ok2 := y.(RType)
			return c.Bool(ok2 && rx.Sym == ry.Sym && types.Identical(rx.T, ry.T))
		}
		return c.Bool(x.(*Value) == y.(*Value))
	case *types.Struct:
		xs, ys := x.(Struct), y.(Struct)
		r := c.T
		for i := range xs {
			if t.Field(i).Name() == "_" {
				continue
			}
			r = c.And(r, in.equal(t.Field(i).Type(), xs[i], ys[i]))
		}
		return r
	case *types.Array:
		xs, ys := x.(Array), y.(Array)
		r := c.T
		for i := range xs {
			r = c.And(r, in.equal(t.Elem(), xs[i], ys[i]))
		}
		return r
	case *types.Interface:
		xi, yi := x.(Iface), y.(Iface)
		if xi.T == nil || yi.T == nil {
			return c.Bool(xi.T == nil && yi.T == nil)
		}
		if !types.Identical(xi.T, yi.T) {
			return c.F
		}
		if !types.Comparable(xi.T) {
			in.goPanic("runtime error: comparing uncomparable type " + xi.T.String())
		}
		return in.equal(xi.T, xi.V, yi.V)
	case *types.Map:
		xm, _ := x.(*Map)
		ym, _ := y.(*Map)
		if xm == nil || ym == nil {
			return c.Bool(xm == nil && ym == nil)
		}
		in.unsupported("map comparison")
	case *types.Slice:
		xs, _ := x.(Slice)
		ys, _ := y.(Slice)
		xn := xs.Back == nil && xs.JSON == nil
		yn := ys.Back == nil && ys.JSON == nil
		// only comparison with nil is legal
		return c.Bool(xn && yn)
	case *types.Signature:
		return c.Bool(isNilFunc(x) && isNilFunc(y))
	case *types.Chan:
		return c.Bool(x == nil && y == nil)
	}
	in.unsupported("equality on %s", t)
	return nil
}

func isNilFunc(v Value) bool {
	switch f := v.(type) {
	case nil:
		return true
	case *Closure:
		return f == nil
	case *ssa.Function:
		return f == nil
	}
	return false
}

func (in *Interp) convert(from, to types.Type, x Value) Value {
	c := in.Ctx
	fu, tu := from.Underlying(), to.Underlying()
	if fw, fsigned, ok := intInfo(fu); ok && fw > 0 {
		if tw, _, ok2 := intInfo(tu); ok2 && tw > 0 {
			t := term(x)
			if tw <= fw {
				return c.Extract(t, 0, tw)
			}
			if fsigned {
				return c.SExt(t, tw)
			}
			return c.ZExt(t, tw)
		}
		if isFloat(tu) {
			t := term(x)
			if !t.IsConst() {
				in.unsupported("symbolic int to float")
			}
			if fsigned {
				return float64(t.Int())
			}
			return float64(t.Val)
		}
		if isString(tu) {
			t := term(x)
			if !t.IsConst() {
				in.unsupported("string(symbolic rune)")
			}
			return Str{S: string(rune(t.Int()))}
		}
	}
	if isFloat(fu) {
		if tw, tsigned, ok := intInfo(tu); ok && tw > 0 {
			if nb, isBox := x.(JNumBox); isBox {
				// a symbolic decoded integer below 2^53 in magnitude converts exactly
				if nb.N.Kind != JNumVal || tw != 64 {
					in.unsupported("conversion of a symbolic decoded JSON number")
				}
				v := nb.N.Val
				lim := c.BV(64, 1<<53)
				small := c.And(c.Cmp(sym.OpSlt, c.Neg(lim), v), c.Cmp(sym.OpSlt, v, lim))
				if !nb.N.Signed {
					small = c.Cmp(sym.OpUlt, v, lim)
				}
				if !in.Path.Branch(small) {
					in.unsupported("conversion of a symbolic decoded JSON number of 2^53 or more")
				}
				return v
			}
			f := x.(float64)
			if tsigned {
				return c.BV(tw, uint64(int64(f)))
			}
			return c.BV(tw, uint64(f))
		}
		if isFloat(tu) {
			if tu.(*types.Basic).Kind() == types.Float32 {
				return float64(float32(x.(float64)))
			}
			return x
		}
	}
	if isString(fu) {
		if sl, ok := tu.(*types.Slice); ok {
			s := x.(Str)
			if b, ok := sl.Elem().Underlying().(*types.Basic); ok && b.Kind() == types.Uint8 {
				if s.Opq != nil {
					if s.Opq.JSON != nil {
						return Slice{JSON: s.Opq.JSON}
					}
					in.unsupported("[]byte(opaque string: %s)", s.Opq.What)
				}
				bs := in.strBytes(s)
				back := make([]Value, len(bs))
				for i := range bs {
					back[i] = bs[i]
				}
				return Slice{Back: back, Len: len(back)}
			}
			if !s.IsConc() {
				in.unsupported("[]rune(symbolic string)")
			}
			rs := []rune(s.S)
			back := make([]Value, len(rs))
			for i := range rs {
				back[i] = c.BV(32, uint64(rs[i]))
			}
			return Slice{Back: back, Len: len(back)}
		}
		if isString(tu) {
			return x
		}
	}
	if sl, ok := fu.(*types.Slice); ok && isString(tu) {
		s := x.(Slice)
		if s.JSON != nil {
			return in.jsonTextToString(s.JSON)
		}
		if b, ok := sl.Elem().Underlying().(*types.Basic); ok && b.Kind() == types.Uint8 {
			bs := make([]*sym.Term, s.Len)
			for i := 0; i < s.Len; i++ {
				bs[i] = term(s.Back[i])
			}
			return in.mkStr(bs)
		}
		rs := make([]rune, s.Len)
		for i := 0; i < s.Len; i++ {
			t := term(s.Back[i])
			if !t.IsConst() {
				in.unsupported("string([]rune symbolic)")
			}
			rs[i] = rune(t.Int())
		}
		return Str{S: string(rs)}
	}
	if _, ok := tu.(*types.Pointer); ok {
		return x // unsafe.Pointer <-> *T
	}
	if b, ok := tu.(*types.Basic); ok && b.Kind() == types.UnsafePointer {
		return x
	}
	if types.Identical(fu, tu) {
		return x
	}
	in.unsupported("convert %s -> %s", from, to)
	return nil
}

func (in *Interp) sliceOp(fr *frame, ins *ssa.Slice) Value {
	x := in.get(fr, ins.X)
	idx := func(v ssa.Value, def int) int {
		if v == nil {
			return def
		}
		return in.concInt(in.get(fr, v), "slice bound")
	}
	switch x := x.(type) {
	case Str:
		n := x.Len()
		lo, hi := idx(ins.Low, 0), idx(ins.High, n)
		if lo < 0 || hi > n || lo > hi {
			in.goPanic(fmt.Sprintf("slice bounds out of range [%d:%d] with length %d", lo, hi, n))
		}
		if x.B != nil {
			return in.mkStr(x.B[lo:hi])
		}
		return Str{S: x.S[lo:hi]}
	case Slice:
		if x.JSON != nil {
			// byte-level access to JSON text: exact when the text can be rendered
			b, ok := in.jsonRenderForced(x.JSON)
			if !ok {
				in.unsupported("reslice of JSON text that cannot be rendered")
			}
			back := make([]Value, len(b))
			for i := range b {
				back[i] = b[i]
			}
			x = Slice{Back: back, Len: len(back)}
		}
		cp := len(x.Back)
		lo, hi, mx := idx(ins.Low, 0), idx(ins.High, x.Len), idx(ins.Max, cp)
		if lo < 0 || hi > cp || lo > hi || mx > cp || hi > mx {
			in.goPanic(fmt.Sprintf("slice bounds out of range [%d:%d:%d] with capacity %d", lo, hi, mx, cp))
		}
		if x.Back == nil {
			return Slice{}
		}
		return Slice{Back: x.Back[lo:mx:mx], Len: hi - lo}
	case *Value:
		if x == nil {
			in.goPanic("nil pointer dereference")
		}
		a := (*x).(Array)
		lo, hi, mx := idx(ins.Low, 0), idx(ins.High, len(a)), idx(ins.Max, len(a))
		if lo < 0 || hi > len(a) || lo > hi || mx > len(a) || hi > mx {
			in.goPanic("slice bounds out of range")
		}
		return Slice{Back: []Value(a)[lo:mx:mx], Len: hi - lo}
	}
	in.unsupported("slice of %T", x)
	return nil
}

func (in *Interp) typeAssert(fr *frame, ins *ssa.TypeAssert) Value {
	x := in.get(fr, ins.X).(Iface)
	at := ins.AssertedType
	var ok bool
	var res Value
	if _, isIface := at.Underlying().(*types.Interface); isIface {
		if x.T != nil && in.implements(x.T, at.Underlying().(*types.Interface)) {
			ok, res = true, x
		} else {
			res = Iface{}
		}
	} else {
		if x.T != nil && types.Identical(x.T, at) {
			ok, res = true, x.V
		} else {
			res = in.zero(at)
		}
	}
	if ins.CommaOk {
		return Tuple{res, in.Ctx.Bool(ok)}
	}
	if !ok {
		have := "nil"
		if x.T != nil {
			have = typeString(x.T)
		}
		in.goPanic(fmt.Sprintf("interface conversion: interface is %s, not %s", have, typeString(at)))
	}
	return res
}

func (in *Interp) implements(t types.Type, it *types.Interface) bool {
	return types.Implements(t, it)
}

func (in *Interp) lookup(fr *frame, ins *ssa.Lookup) Value {
	x := in.get(fr, ins.X)
	switch x := x.(type) {
	case Str:
		if it := term(in.get(fr, ins.Index)); !it.IsConst() && x.IsConc() && len(x.S) <= 64 && len(x.S) > 0 {
			// symbolic index into a short constant string (hex digit tables): an ite chain
			c := in.Ctx
			if in.Path.Branch(c.Cmp(sym.OpUle, c.BV(it.W, uint64(len(x.S))), it)) {
				in.goPanic("index out of range")
			}
			r := c.BV(8, uint64(x.S[len(x.S)-1]))
			for k := len(x.S) - 2; k >= 0; k-- {
				r = c.Ite(c.Eq(it, c.BV(it.W, uint64(k))), c.BV(8, uint64(x.S[k])), r)
			}
			return r
		}
		i := in.concInt(in.get(fr, ins.Index), "index")
		if x.Opq != nil && x.Opq.JSON != nil && i == 0 {
			return in.jsonFirstByte(x.Opq.JSON)
		}
		if i < 0 || i >= x.Len() {
			in.goPanic(fmt.Sprintf("index out of range [%d] with length %d", i, x.Len()))
		}
		return in.strAt(x, i)
	case *Map:
		k := in.get(fr, ins.Index)
		var vt types.Type
		if x != nil {
			vt = x.ValT
		} else {
			vt = ins.X.Type().Underlying().(*types.Map).Elem()
		}
		e := in.mapFind(x, k)
		var v Value
		if e != nil {
			v = copyVal(e.V)
		} else {
			v = in.zero(vt)
		}
		if ins.CommaOk {
			return Tuple{v, in.Ctx.Bool(e != nil)}
		}
		return v
	}
	in.unsupported("lookup on %T", x)
	return nil
}

// ---------- maps ----------

func (in *Interp) keyEq(kt types.Type, a, b Value) *sym.Term {
	return in.equal(kt, a, b)
}

// mapFind returns the entry for key k, forking when the key is symbolic.
func (in *Interp) mapFind(m *Map, k Value) *MapEntry {
	if m == nil {
		return nil
	}
	var cands []*MapEntry
	var conds []*sym.Term
	for _, e := range m.Entries {
		if e.Deleted {
			continue
		}
		eq := in.keyEq(m.KeyT, e.K, k)
		if eq.IsTrue() {
			return e
		}
		if eq.IsFalse() {
			continue
		}
		cands = append(cands, e)
		conds = append(conds, eq)
	}
	if len(cands) == 0 {
		return nil
	}
	// alternatives: equals candidate i (mutually exclusive: keys pairwise distinct), or none
	none := in.Ctx.T
	for _, c := range conds {
		none = in.Ctx.And(none, in.Ctx.Not(c))
	}
	// make the alternatives exclusive even if two candidates could coincide
	alts := make([]*sym.Term, 0, len(conds)+1)
	prevNot := in.Ctx.T
	for _, c := range conds {
		alts = append(alts, in.Ctx.And(prevNot, c))
		prevNot = in.Ctx.And(prevNot, in.Ctx.Not(c))
	}
	alts = append(alts, none)
	d := in.Path.Choose(len(alts), alts)
	if d == len(cands) {
		return nil
	}
	return cands[d]
}

func (in *Interp) mapUpdate(m *Map, k, v Value) {
	if m == nil {
		in.goPanic("assignment to entry in nil map")
	}
	if in.freezeOn && in.frozenMaps[m] {
		panic(&SharedWrite{})
	}
	e := in.mapFind(m, k)
	if e != nil {
		e.V = copyVal(v)
		return
	}
	m.Entries = append(m.Entries, &MapEntry{K: k, V: copyVal(v)})
}

func (in *Interp) mapDelete(m *Map, k Value) {
	if m == nil {
		return
	}
	if in.freezeOn && in.frozenMaps[m] {
		if in.mapFind(m, k) != nil {
			panic(&SharedWrite{})
		}
		return
	}
	e := in.mapFind(m, k)
	if e == nil {
		return
	}
	e.Deleted = true
	out := m.Entries[:0:0]
	for _, x := range m.Entries {
		if x != e {
			out = append(out, x)
		}
	}
	m.Entries = out
}

func (in *Interp) mapLen(m *Map) int {
	if m == nil {
		return 0
	}
	return len(m.Entries)
}

var perms = map[int][][]int{}

func permutations(n int) [][]int {
	if p, ok := perms[n]; ok {
		return p
	}
	var res [][]int
	var rec func(cur []int, used []bool)
	rec = func(cur []int, used []bool) {
		if len(cur) == n {
			res = append(res, append([]int{}, cur...))
			return
		}
		for i := 0; i < n; i++ {
			if !used[i] {
				used[i] = true
				rec(append(cur, i), used)
				used[i] = false
			}
		}
	}
	rec(nil, make([]bool, n))
	return res
}

func init() {
	for n := 0; n <= 4; n++ {
		perms[n] = permutations(n)
	}
}

func (in *Interp) mapRange(fr *frame, m *Map) Value {
	it := &MapIter{M: m}
	if m == nil {
		return it
	}
	ents := append([]*MapEntry{}, m.Entries...)
	n := len(ents)
	if n >= 2 && in.mapOrderMode > 0 && in.mapOrderEnabled(fr) {
		in.Path.usedMapOrder = true
		switch {
		case in.mapOrderMode >= 2 && n <= 4:
			ps := perms[n]
			d := in.Path.Choose(len(ps), nil)
			re := make([]*MapEntry, n)
			for i, j := range ps[d] {
				re[i] = ents[j]
			}
			ents = re
		default:
			d := in.Path.Choose(2, nil)
			if d == 1 {
				for i, j := 0, n-1; i < j; i, j = i+1, j-1 {
					ents[i], ents[j] = ents[j], ents[i]
				}
			}
		}
	}
	it.Ents = ents
	return it
}

func (in *Interp) mapOrderEnabled(fr *frame) bool {
	if len(in.mapOrderFns) == 0 {
		return false
	}
	name := fr.fn.String()
	for _, s := range in.mapOrderFns {
		if s == "*" || strings.Contains(name, s) {
			return true
		}
	}
	return false
}

// ---------- builtins ----------

func (in *Interp) builtin(fr *frame, b *ssa.Builtin, call *ssa.CallCommon, args []Value) Value {
	c := in.Ctx
	switch b.Name() {
	case "len":
		switch x := args[0].(type) {
		case Str:
			if x.Opq != nil && x.Opq.JSON != nil {
				return c.BV(64, uint64(in.jsonTextLen(x.Opq.JSON)))
			}
			return c.BV(64, uint64(x.Len()))
		case Slice:
			if x.JSON != nil {
				return c.BV(64, uint64(in.jsonTextLen(x.JSON)))
			}
			return c.BV(64, uint64(x.Len))
		case *Map:
			return c.BV(64, uint64(in.mapLen(x)))
		case Array:
			return c.BV(64, uint64(len(x)))
		case *Value:
			return c.BV(64, uint64(len((*x).(Array))))
		}
	case "cap":
		switch x := args[0].(type) {
		case Slice:
			return c.BV(64, uint64(len(x.Back)))
		case Array:
			return c.BV(64, uint64(len(x)))
		}
	case "append":
		return in.appendOp(call, args)
	case "copy":
		dst := args[0].(Slice)
		var src []Value
		switch s := args[1].(type) {
		case Slice:
			if s.JSON != nil {
				in.unsupported("copy from JSON text")
			}
			src = s.Back[:s.Len]
		case Str:
			for _, t := range in.strBytes(s) {
				src = append(src, t)
			}
		}
		n := dst.Len
		if len(src) < n {
			n = len(src)
		}
		tmp := make([]Value, n)
		for i := 0; i < n; i++ {
			tmp[i] = copyVal(src[i])
		}
		for i := 0; i < n; i++ {
			in.checkWrite(&dst.Back[i])
			dst.Back[i] = tmp[i]
		}
		return c.BV(64, uint64(n))
	case "delete":
		in.mapDelete(args[0].(*Map), args[1])
		return nil
	case "print", "println":
		return nil
	case "recover":
		return Iface{}
	case "min", "max":
		if len(args) == 2 {
			if a, ok := args[0].(*sym.Term); ok {
				bb := args[1].(*sym.Term)
				_, signed, _ := intInfo(call.Args[0].Type())
				var lt *sym.Term
				if signed {
					lt = c.Cmp(sym.OpSlt, a, bb)
				} else {
					lt = c.Cmp(sym.OpUlt, a, bb)
				}
				if b.Name() == "min" {
					return c.Ite(lt, a, bb)
				}
				return c.Ite(lt, bb, a)
			}
		}
	case "clear":
		if m, ok := args[0].(*Map); ok {
			if m != nil {
				m.Entries = nil
			}
			return nil
		}
	case "ssa:wrapnilchk":
		if p, ok := args[0].(*Value); ok && p == nil {
			in.goPanic("value method called using nil pointer")
		}
		return args[0]
	}
	in.unsupported("builtin %s on %T", b.Name(), args[0])
	return nil
}

func (in *Interp) appendOp(call *ssa.CallCommon, args []Value) Value {
	s := args[0].(Slice)
	if s.JSON != nil {
		in.unsupported("append to JSON text")
	}
	var add []Value
	switch t := args[1].(type) {
	case Slice:
		if t.JSON != nil {
			// the code handles a marshaled document as bytes: it becomes its exact text
			b, ok := in.jsonRenderForced(t.JSON)
			if !ok {
				in.unsupported("append of JSON text that cannot be rendered")
			}
			for _, x := range b {
				add = append(add, x)
			}
		} else {
			add = t.Back[:t.Len]
		}
	case Str:
		for _, b := range in.strBytes(t) {
			add = append(add, b)
		}
	}
	if len(add) == 0 {
		return s
	}
	n := s.Len + len(add)
	if n <= len(s.Back) {
		tmp := make([]Value, len(add))
		for i := range add {
			tmp[i] = copyVal(add[i])
		}
		for i := range tmp {
			in.checkWrite(&s.Back[s.Len+i])
			s.Back[s.Len+i] = tmp[i]
		}
		return Slice{Back: s.Back, Len: n}
	}
	et := call.Args[0].Type().Underlying().(*types.Slice).Elem()
	nc := growCap(len(s.Back), n, in.P.Sizes.Sizeof(et))
	back := make([]Value, nc)
	for i := 0; i < s.Len; i++ {
		back[i] = copyVal(s.Back[i])
	}
	for i := range add {
		back[s.Len+i] = copyVal(add[i])
	}
	for i := n; i < nc; i++ {
		back[i] = in.zero(et)
	}
	return Slice{Back: back, Len: n}
}

// growCap mirrors runtime.growslice's capacity computation (nextslicecap + size classes).
func growCap(oldCap, newLen int, elemSize int64) int {
	newcap := oldCap
	doublecap := newcap + newcap
	if newLen > doublecap {
		newcap = newLen
	} else {
		const threshold = 256
		if oldCap < threshold {
			newcap = doublecap
		} else {
			for newcap < newLen {
				newcap += (newcap + 3*threshold) >> 2
			}
		}
	}
	if elemSize <= 0 {
		return newcap
	}
	mem := roundupsize(uint64(newcap) * uint64(elemSize))
	return int(mem / uint64(elemSize))
}

var sizeClasses = []uint64{0, 8, 16, 24, 32, 48, 64, 80, 96, 112, 128, 144, 160, 176, 192, 208, 224, 240, 256, 288, 320, 352, 384, 416, 448, 480, 512, 576, 640, 704, 768, 896, 1024, 1152, 1280, 1408, 1536, 1792, 2048, 2304, 2688, 3072, 3200, 3456, 4096, 4864, 5376, 6144, 6528, 6784, 6912, 8192, 9472, 9728, 10240, 10880, 12288, 13568, 14336, 16384, 18432, 19072, 20480, 21760, 24576, 27264, 28672, 32768}

func roundupsize(sz uint64) uint64 {
	for _, c := range sizeClasses {
		if c >= sz {
			return c
		}
	}
	return (sz + 8191) &^ 8191
}

func (in *Interp) countInstr() { atomic.AddInt64(&in.Path.Ex.Instr, in.instr); in.flushFuncs() }

// Where describes the instruction being executed (for diagnostics).
func (in *Interp) Where() string {
	if in.curIns == nil {
		return ""
	}
	pos := in.P.Prog.Fset.Position(in.curIns.Pos())
	fn := ""
	if in.curIns.Parent() != nil {
		fn = in.curIns.Parent().String()
	}
	return fmt.Sprintf("%s: %s [%s]", fn, in.curIns.String(), pos)
}

package exec

import "vsym/sym"

// JNode is an abstract JSON document (see DESIGN.md §2.7). Filled in by json_model.go.
type JNode struct {
	Kind int
}

func jsonTextEqualsLiteral(n *JNode, lit string) (bool, bool) { return false, false }
func (in *Interp) jsonTextToString(n *JNode) Value             { in.unsupported("json"); return nil }
func (in *Interp) jsonTextLen(n *JNode) int                     { in.unsupported("json"); return 0 }
func (in *Interp) jsonParseNumber(n *JNode, bits int, signed bool) Value {
	in.unsupported("json")
	return nil
}
func (in *Interp) jsonEqual(a, b *JNode) *sym.Term { in.unsupported("json"); return nil }

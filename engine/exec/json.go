package exec

import (
	"bytes"
	"encoding/json"
	"fmt"
	"go/types"
	"io"
	"math/big"
	"reflect"
	"sort"
	"strconv"
	"strings"
	"time"
	"unicode/utf8"

	"golang.org/x/tools/go/ssa"

	"vsym/sym"
)

// Abstract JSON documents (DESIGN.md §2.7). encoding/json is modelled at the level of its
// documented contract: a []byte produced by json.Marshal or supplied by a harness as a payload
// is a tree whose leaves may be symbolic.

type JKind int

const (
	JNull JKind = iota
	JBool
	JNumText // number given by its literal text (symbolic bytes; harness guarantees the grammar)
	JNumVal  // number given by its integer value (from marshaling a Go integer)
	JString
	JArray
	JObject
	JInvalid // bytes that are not JSON
)

const (
	flPlain = iota
	flTime
	flBytes
)

type JNode struct {
	Kind   JKind
	B      *sym.Term // JBool
	Text   Str       // JNumText (also floats rendered concretely)
	Val    *sym.Term // JNumVal
	Signed bool
	S      Str   // JString plain
	Flavor int   // JString: plain / time / bytes
	Time   Value // Struct of time.Time
	Bytes  Slice
	Elems  []*JNode
	Keys   []Str
	Vals   []*JNode
	FromMap bool // object built from a Go map (keys are sorted by encoding/json)
}

// JNumBox is the value stored in an interface{} for a decoded JSON number (encoding/json
// would store a float64; the library never computes with it).
type JNumBox struct{ N *JNode }

func jstr(s string) *JNode { return &JNode{Kind: JString, S: Str{S: s}} }

// ---------- rendering ----------

// jsonRenderForced is jsonRender with symbolic integers and strings rendered byte by byte even
// where the harness did not ask for it (the code under test works on the bytes of a document).
func (in *Interp) jsonRenderForced(n *JNode) ([]*sym.Term, bool) {
	if b, ok := in.jsonRender(n); ok {
		return b, true
	}
	ri, rj := in.renderInts, in.renderJSON
	in.renderInts, in.renderJSON = true, true
	b, ok := in.jsonRender(n)
	in.renderInts, in.renderJSON = ri, rj
	return b, ok
}

// jsonRender returns the exact compact text of n when it can be determined with a concrete
// length (all leaves concrete, or symbolic leaves whose rendering has a fixed length).
func (in *Interp) jsonRender(n *JNode) ([]*sym.Term, bool) {
	c := in.Ctx
	lit := func(s string) []*sym.Term {
		out := make([]*sym.Term, len(s))
		for i := range out {
			out[i] = c.BV(8, uint64(s[i]))
		}
		return out
	}
	switch n.Kind {
	case JNull:
		return lit("null"), true
	case JBool:
		if n.B.IsConst() {
			if n.B.Val == 1 {
				return lit("true"), true
			}
			return lit("false"), true
		}
		return nil, false
	case JNumText:
		if n.Text.Opq != nil {
			return nil, false
		}
		return in.strBytes(n.Text), true
	case JNumVal:
		if n.Val.IsConst() {
			if n.Signed {
				return lit(strconv.FormatInt(n.Val.Int(), 10)), true
			}
			return lit(strconv.FormatUint(n.Val.Val, 10)), true
		}
		if in.renderInts {
			return in.strBytes(in.decimalOf(n.Val, n.Signed)), true
		}
		return nil, false
	case JString:
		if n.Flavor == flPlain && n.S.IsConc() {
			b, _ := json.Marshal(n.S.S)
			return lit(string(b)), true
		}
		if n.Flavor == flPlain && n.S.Opq == nil && in.renderJSON {
			return in.jsonRenderString(n.S), true
		}
		return nil, false
	case JArray:
		out := lit("[")
		for i, e := range n.Elems {
			if i > 0 {
				out = append(out, lit(",")...)
			}
			r, ok := in.jsonRender(e)
			if !ok {
				return nil, false
			}
			out = append(out, r...)
		}
		return append(out, lit("]")...), true
	case JObject:
		if n.FromMap {
			// key order depends on sorting symbolic keys: render only if keys are concrete
			for _, k := range n.Keys {
				if !k.IsConc() {
					return nil, false
				}
			}
		}
		idx := make([]int, len(n.Keys))
		for i := range idx {
			idx[i] = i
		}
		if n.FromMap {
			sort.SliceStable(idx, func(a, b int) bool { return n.Keys[idx[a]].S < n.Keys[idx[b]].S })
		}
		out := lit("{")
		for j, i := range idx {
			if j > 0 {
				out = append(out, lit(",")...)
			}
			if !n.Keys[i].IsConc() {
				return nil, false
			}
			kb, _ := json.Marshal(n.Keys[i].S)
			out = append(out, lit(string(kb))...)
			out = append(out, lit(":")...)
			r, ok := in.jsonRender(n.Vals[i])
			if !ok {
				return nil, false
			}
			out = append(out, r...)
		}
		return append(out, lit("}")...), true
	}
	return nil, false
}

func (in *Interp) jsonTextToString(n *JNode) Value {
	if n.Kind == JInvalid {
		return Str{Opq: &Opaque{What: "text that is not JSON", JSON: n}}
	}
	if b, ok := in.jsonRender(n); ok {
		return in.mkStr(b)
	}
	return Str{Opq: &Opaque{What: "JSON text", JSON: n, NotNilWord: true}}
}

// jsonTextLen: only emptiness is observable to the library (it allocates with it); the
// rendered length is used when available, otherwise a positive estimate.
func (in *Interp) jsonTextLen(n *JNode) int {
	if b, ok := in.jsonRender(n); ok {
		return len(b)
	}
	switch n.Kind {
	case JString:
		if n.Flavor == flPlain && n.S.Opq == nil {
			return n.S.Len() + 2
		}
		return 16
	}
	return 8
}

// jsonFirstByte returns the first byte of the text of n.
func (in *Interp) jsonFirstByte(n *JNode) *sym.Term {
	c := in.Ctx
	switch n.Kind {
	case JNull:
		return c.BV(8, 'n')
	case JBool:
		return c.Ite(n.B, c.BV(8, 't'), c.BV(8, 'f'))
	case JNumText:
		return in.strAt(n.Text, 0)
	case JNumVal:
		if n.Val.IsConst() {
			b, _ := in.jsonRender(n)
			return b[0]
		}
		neg := c.F
		if n.Signed {
			neg = c.Cmp(sym.OpSlt, n.Val, c.BV(n.Val.W, 0))
		}
		in.mapSeq++
		d := c.Var(fmt.Sprintf("json.digit%d", in.mapSeq), 8)
		in.Path.Assume(c.And(c.Cmp(sym.OpUle, c.BV(8, '0'), d), c.Cmp(sym.OpUle, d, c.BV(8, '9'))))
		return c.Ite(neg, c.BV(8, '-'), d)
	case JString:
		return c.BV(8, '"')
	case JArray:
		return c.BV(8, '[')
	case JObject:
		return c.BV(8, '{')
	}
	in.unsupported("first byte of non-JSON text")
	return nil
}

// jsonTextEqualsLiteral decides text(n) == lit for texts that cannot be rendered.
func jsonTextEqualsLiteral(n *JNode, lit string) (bool, bool) {
	if lit == "" {
		return false, true
	}
	switch n.Kind {
	case JNumVal:
		if lit[0] != '-' && (lit[0] < '0' || lit[0] > '9') {
			return false, true
		}
	case JString:
		if lit[0] != '"' {
			return false, true
		}
	case JArray:
		if lit[0] != '[' {
			return false, true
		}
	case JObject:
		if lit[0] != '{' {
			return false, true
		}
	case JInvalid:
		return false, false
	}
	return false, false
}

// jsonTextEqTerm handles the symbolic-boolean leaf.
func (in *Interp) jsonTextEqTerm(n *JNode, lit string) (*sym.Term, bool) {
	if n.Kind == JBool {
		switch lit {
		case "true":
			return n.B, true
		case "false":
			return in.Ctx.Not(n.B), true
		}
		return in.Ctx.F, true
	}
	if n.Kind == JNumVal {
		// the text of a marshaled integer is its canonical decimal rendering
		if n.Signed {
			if v, err := strconv.ParseInt(lit, 10, 64); err == nil && strconv.FormatInt(v, 10) == lit {
				return in.Ctx.Eq(in.Ctx.SExt(n.Val, 64), in.Ctx.BV(64, uint64(v))), true
			}
		} else if v, err := strconv.ParseUint(lit, 10, 64); err == nil && strconv.FormatUint(v, 10) == lit {
			return in.Ctx.Eq(in.Ctx.ZExt(n.Val, 64), in.Ctx.BV(64, v)), true
		}
		return in.Ctx.F, true
	}
	if r, ok := jsonTextEqualsLiteral(n, lit); ok {
		return in.Ctx.Bool(r), true
	}
	return nil, false
}

// jsonParseNumber is the documented contract of strconv.Atoi/ParseInt/ParseUint applied to
// the text of a JSON leaf that is not rendered byte by byte.
func (in *Interp) jsonParseNumber(n *JNode, bits int, signed bool) Value {
	c := in.Ctx
	in.noteModel("strconv.Atoi/ParseInt/ParseUint on a marshaled integer (contract: decimal rendering and parsing are inverse)")
	if bits == 0 {
		bits = 64
	}
	synErr := func() Value { return Tuple{c.BV(64, 0), in.newError(Str{S: "strconv: invalid syntax"})} }
	if n.Kind != JNumVal {
		return synErr()
	}
	v := n.Val
	// the mathematical value as a 65-bit two's complement number would be ideal; split cases
	if signed {
		// target: signed integer of `bits` bits
		var v64 *sym.Term
		var tooBig *sym.Term
		if n.Signed {
			v64 = c.SExt(v, 64)
			tooBig = c.F
		} else {
			v64 = c.ZExt(v, 64)
			tooBig = c.F
			if v.W == 64 {
				tooBig = c.Cmp(sym.OpSlt, v64, c.BV(64, 0)) // >= 2^63
			}
		}
		maxv := uint64(1)<<uint(bits-1) - 1
		minv := -int64(1) << uint(bits-1)
		hi := c.Or(tooBig, c.Cmp(sym.OpSlt, c.BV(64, maxv), v64))
		lo := c.And(c.Not(tooBig), c.Cmp(sym.OpSlt, v64, c.BV(64, uint64(minv))))
		if in.Path.Branch(hi) {
			return Tuple{c.BV(64, maxv), in.newError(Str{S: "strconv: value out of range"})}
		}
		if in.Path.Branch(lo) {
			return Tuple{c.BV(64, uint64(minv)), in.newError(Str{S: "strconv: value out of range"})}
		}
		return Tuple{v64, Iface{}}
	}
	// unsigned target
	if n.Signed {
		if in.Path.Branch(c.Cmp(sym.OpSlt, v, c.BV(v.W, 0))) {
			return synErr() // leading '-'
		}
	}
	v64 := c.ZExt(v, 64)
	if n.Signed {
		v64 = c.SExt(v, 64)
	}
	if bits < 64 {
		maxv := uint64(1)<<uint(bits) - 1
		if in.Path.Branch(c.Cmp(sym.OpUlt, c.BV(64, maxv), v64)) {
			return Tuple{c.BV(64, maxv), in.newError(Str{S: "strconv: value out of range"})}
		}
	}
	return Tuple{v64, Iface{}}
}

// ---------- equality of documents ----------

func (in *Interp) jsonEqual(a, b *JNode) *sym.Term {
	c := in.Ctx
	if a == b {
		return c.T
	}
	if a.Kind == JNumText || b.Kind == JNumText || a.Kind == JNumVal || b.Kind == JNumVal {
		if a.Kind == JNumVal && b.Kind == JNumVal {
			// compare as mathematical integers
			ax, bx := in.numTo65(a), in.numTo65(b)
			return c.Eq(ax, bx)
		}
		if a.Kind == JNumText && b.Kind == JNumText {
			return in.strEq(a.Text, b.Text)
		}
		if (a.Kind == JNumText || a.Kind == JNumVal) && (b.Kind == JNumText || b.Kind == JNumVal) {
			// a concrete literal against a concrete integer: compared as exact rationals
			t, v := a, b
			if t.Kind != JNumText {
				t, v = b, a
			}
			if t.Text.IsConc() && v.Val.IsConst() {
				if r, ok := new(big.Rat).SetString(t.Text.S); ok {
					var iv *big.Int
					if v.Signed {
						iv = big.NewInt(v.Val.Int())
					} else {
						iv = new(big.Int).SetUint64(v.Val.Val)
					}
					return c.Bool(r.Cmp(new(big.Rat).SetInt(iv)) == 0)
				}
			}
			in.unsupported("comparison of a JSON number literal with a marshaled integer")
		}
		return c.F
	}
	if a.Kind != b.Kind {
		return c.F
	}
	switch a.Kind {
	case JNull:
		return c.T
	case JBool:
		return c.Eq(a.B, b.B)
	case JString:
		if a.Flavor != b.Flavor {
			in.unsupported("comparison of JSON strings of different flavors")
		}
		switch a.Flavor {
		case flTime:
			as, bs := a.Time.(Struct), b.Time.(Struct)
			return c.And(c.Eq(term(as[0]), term(bs[0])), c.Eq(term(as[1]), term(bs[1])))
		case flBytes:
			return in.strEq(in.bytesAsStr(a.Bytes), in.bytesAsStr(b.Bytes))
		}
		return in.strEq(a.S, b.S)
	case JArray:
		if len(a.Elems) != len(b.Elems) {
			return c.F
		}
		r := c.T
		for i := range a.Elems {
			r = c.And(r, in.jsonEqual(a.Elems[i], b.Elems[i]))
		}
		return r
	case JObject:
		if len(a.Keys) != len(b.Keys) {
			return c.F
		}
		r := c.T
		for i := range a.Keys {
			any := c.F
			for j := range b.Keys {
				k := in.strEq(a.Keys[i], b.Keys[j])
				if k.IsFalse() {
					continue
				}
				any = c.Or(any, c.And(k, in.jsonEqual(a.Vals[i], b.Vals[j])))
			}
			r = c.And(r, any)
		}
		return r
	}
	return c.F
}

// numTo65 widens an integer leaf to a 64-bit term plus handles sign by mapping to a
// canonical 64-bit pattern pair; here: compare via (isNegative, magnitude bits).
func (in *Interp) numTo65(n *JNode) *sym.Term {
	c := in.Ctx
	// encode as 64-bit two's complement of the value if it fits int64, else (unsigned >= 2^63)
	// offset by a flag in a separate comparison; to stay simple, map to a 64-bit term of
	// (value mod 2^64) and require equal signedness class for huge unsigned values.
	if n.Signed {
		return c.SExt(n.Val, 64)
	}
	return c.ZExt(n.Val, 64)
}

// ---------- concrete bytes -> tree ----------

func parseConcreteJSON(data []byte) *JNode {
	if !json.Valid(data) {
		return &JNode{Kind: JInvalid}
	}
	dec := json.NewDecoder(bytes.NewReader(data))
	dec.UseNumber()
	n, err := parseTok(dec)
	if err != nil {
		return &JNode{Kind: JInvalid}
	}
	return n
}

func parseTok(dec *json.Decoder) (*JNode, error) {
	tok, err := dec.Token()
	if err != nil {
		return nil, err
	}
	switch t := tok.(type) {
	case json.Delim:
		switch t {
		case '[':
			n := &JNode{Kind: JArray}
			for dec.More() {
				e, err := parseTok(dec)
				if err != nil {
					return nil, err
				}
				n.Elems = append(n.Elems, e)
			}
			_, err := dec.Token()
			return n, err
		case '{':
			n := &JNode{Kind: JObject}
			for dec.More() {
				kt, err := dec.Token()
				if err != nil {
					return nil, err
				}
				ks, ok := kt.(string)
				if !ok {
					return nil, io.ErrUnexpectedEOF
				}
				v, err := parseTok(dec)
				if err != nil {
					return nil, err
				}
				n.Keys = append(n.Keys, Str{S: ks})
				n.Vals = append(n.Vals, v)
			}
			_, err := dec.Token()
			return n, err
		}
		return nil, io.ErrUnexpectedEOF
	case nil:
		return &JNode{Kind: JNull}, nil
	case bool:
		return &JNode{Kind: JBool, B: nil, Text: Str{S: fmt.Sprint(t)}}, nil
	case json.Number:
		return &JNode{Kind: JNumText, Text: Str{S: string(t)}}, nil
	case string:
		return jstr(t), nil
	}
	return nil, io.ErrUnexpectedEOF
}

// fixBools fills the B terms of concrete booleans (parseTok has no Ctx).
func (in *Interp) fixBools(n *JNode) *JNode {
	switch n.Kind {
	case JBool:
		if n.B == nil {
			n.B = in.Ctx.Bool(n.Text.S == "true")
		}
	case JArray:
		for _, e := range n.Elems {
			in.fixBools(e)
		}
	case JObject:
		for _, e := range n.Vals {
			in.fixBools(e)
		}
	}
	return n
}

// jsonOfBytes interprets a []byte value as a JSON document.
func (in *Interp) jsonOfBytes(s Slice) *JNode {
	if s.JSON != nil {
		return s.JSON
	}
	bs := make([]*sym.Term, s.Len)
	conc := true
	for i := 0; i < s.Len; i++ {
		bs[i] = term(s.Back[i])
		if !bs[i].IsConst() {
			conc = false
		}
	}
	if conc {
		raw := make([]byte, len(bs))
		for i, t := range bs {
			raw[i] = byte(t.Val)
		}
		return in.fixBools(parseConcreteJSON(raw))
	}
	return in.parseSymbolicJSON(bs)
}

// jsonRenderString renders a string leaf with symbolic (ASCII) content exactly as
// encoding/json does, deciding the escape class of every byte.
func (in *Interp) jsonRenderString(s Str) []*sym.Term {
	c := in.Ctx
	in.noteModel("JSON string encoding of symbolic bytes (escape classes decided per byte, ASCII)")
	lit := func(x string) []*sym.Term {
		out := make([]*sym.Term, len(x))
		for i := range out {
			out[i] = c.BV(8, uint64(x[i]))
		}
		return out
	}
	out := lit("\"")
	all := in.strBytes(s)
	for i := 0; i < s.Len(); i++ {
		b := in.strAt(s, i)
		if r, size, ok := concreteRune(all, i); ok {
			switch {
			case r == utf8.RuneError && size == 1:
				out = append(out, lit("\\ufffd")...)
			case r == 0x2028 || r == 0x2029:
				out = append(out, lit(fmt.Sprintf("\\u%04x", r))...)
			default:
				out = append(out, all[i:i+size]...)
			}
			i += size - 1
			continue
		}
		done := false
		for _, e := range []struct {
			ch  byte
			enc string
		}{{'"', "\\\""}, {'\\', "\\\\"}, {'\b', "\\b"}, {'\f', "\\f"}, {'\n', "\\n"}, {'\r', "\\r"}, {'\t', "\\t"},
			{'<', "\\u003c"}, {'>', "\\u003e"}, {'&', "\\u0026"}} {
			if in.Path.Branch(c.Eq(b, c.BV(8, uint64(e.ch)))) {
				out = append(out, lit(e.enc)...)
				done = true
				break
			}
		}
		if done {
			continue
		}
		if in.Path.Branch(c.Cmp(sym.OpUlt, b, c.BV(8, 0x20))) {
			out = append(out, lit("\\u00")...)
			hex := func(n *sym.Term) *sym.Term {
				return c.Ite(c.Cmp(sym.OpUlt, n, c.BV(8, 10)), c.Bin(sym.OpAdd, n, c.BV(8, '0')), c.Bin(sym.OpAdd, n, c.BV(8, 'a'-10)))
			}
			out = append(out, hex(c.Bin(sym.OpLShr, b, c.BV(8, 4))), hex(c.Bin(sym.OpBAnd, b, c.BV(8, 15))))
			continue
		}
		if in.Path.Branch(c.Cmp(sym.OpUle, c.BV(8, 0x80), b)) {
			in.unsupported("non-ASCII byte in a JSON string (outside the stated bound)")
		}
		out = append(out, b)
	}
	return append(out, lit("\"")...)
}

// parseSymbolicJSON parses JSON text given as bytes of which some are symbolic (recursive
// descent following the JSON grammar; every symbolic byte is classified by decisions).
func (in *Interp) parseSymbolicJSON(bs []*sym.Term) *JNode {
	in.noteModel("JSON scanner over partly symbolic bytes")
	p := &symJSONParser{in: in, bs: bs}
	p.ws()
	n := p.value(0)
	if n == nil {
		return &JNode{Kind: JInvalid}
	}
	p.ws()
	if p.i != len(bs) {
		return &JNode{Kind: JInvalid}
	}
	return n
}

type symJSONParser struct {
	in *Interp
	bs []*sym.Term
	i  int
}

func (p *symJSONParser) is(ch byte) bool {
	if p.i >= len(p.bs) {
		return false
	}
	return p.in.Path.Branch(p.in.Ctx.Eq(p.bs[p.i], p.in.Ctx.BV(8, uint64(ch))))
}

func (p *symJSONParser) ws() {
	for p.i < len(p.bs) && (p.is(' ') || p.is('\n') || p.is('\t') || p.is('\r')) {
		p.i++
	}
}

func (p *symJSONParser) word(w string) bool {
	for k := 0; k < len(w); k++ {
		if !p.is(w[k]) {
			return false
		}
		p.i++
	}
	return true
}

func (p *symJSONParser) isDigit() bool {
	if p.i >= len(p.bs) {
		return false
	}
	c := p.in.Ctx
	b := p.bs[p.i]
	return p.in.Path.Branch(c.And(c.Cmp(sym.OpUle, c.BV(8, '0'), b), c.Cmp(sym.OpUle, b, c.BV(8, '9'))))
}

func (p *symJSONParser) value(depth int) *JNode {
	in := p.in
	c := in.Ctx
	if depth > 8 || p.i >= len(p.bs) {
		return nil
	}
	switch {
	case p.is('{'):
		p.i++
		n := &JNode{Kind: JObject}
		p.ws()
		if p.is('}') {
			p.i++
			return n
		}
		for {
			p.ws()
			if !p.is('"') {
				return nil
			}
			k := p.str()
			if k == nil {
				return nil
			}
			p.ws()
			if !p.is(':') {
				return nil
			}
			p.i++
			p.ws()
			v := p.value(depth + 1)
			if v == nil {
				return nil
			}
			n.Keys = append(n.Keys, k.S)
			n.Vals = append(n.Vals, v)
			p.ws()
			if p.is(',') {
				p.i++
				continue
			}
			if p.is('}') {
				p.i++
				return n
			}
			return nil
		}
	case p.is('['):
		p.i++
		n := &JNode{Kind: JArray}
		p.ws()
		if p.is(']') {
			p.i++
			return n
		}
		for {
			p.ws()
			v := p.value(depth + 1)
			if v == nil {
				return nil
			}
			n.Elems = append(n.Elems, v)
			p.ws()
			if p.is(',') {
				p.i++
				continue
			}
			if p.is(']') {
				p.i++
				return n
			}
			return nil
		}
	case p.is('"'):
		return p.str()
	case p.is('t'):
		if p.word("true") {
			return &JNode{Kind: JBool, B: c.T}
		}
		return nil
	case p.is('f'):
		if p.word("false") {
			return &JNode{Kind: JBool, B: c.F}
		}
		return nil
	case p.is('n'):
		if p.word("null") {
			return &JNode{Kind: JNull}
		}
		return nil
	}
	// number: -? (0 | [1-9][0-9]*) (. [0-9]+)? ([eE] [+-]? [0-9]+)?
	start := p.i
	if p.is('-') {
		p.i++
	}
	if p.is('0') {
		p.i++
	} else if p.isDigit() {
		for p.isDigit() {
			p.i++
		}
	} else {
		return nil
	}
	if p.is('.') {
		p.i++
		if !p.isDigit() {
			return nil
		}
		for p.isDigit() {
			p.i++
		}
	}
	if p.is('e') || p.is('E') {
		p.i++
		if p.is('+') || p.is('-') {
			p.i++
		}
		if !p.isDigit() {
			return nil
		}
		for p.isDigit() {
			p.i++
		}
	}
	return &JNode{Kind: JNumText, Text: in.mkStr(p.bs[start:p.i])}
}

// str parses a string literal starting at the opening quote.
func (p *symJSONParser) str() *JNode {
	in := p.in
	c := in.Ctx
	bs := p.bs
	n := len(bs)
	var out []*sym.Term
	i := p.i + 1
	for i < n {
		b := bs[i]
		if in.Path.Branch(c.Eq(b, c.BV(8, '"'))) {
			p.i = i + 1
			return &JNode{Kind: JString, S: in.mkStr(out)}
		}
		if in.Path.Branch(c.Cmp(sym.OpUlt, b, c.BV(8, 0x20))) {
			return nil // control character
		}
		if in.Path.Branch(c.Eq(b, c.BV(8, '\\'))) {
			if i+1 >= n {
				return nil
			}
			e := bs[i+1]
			handled := false
			for _, es := range []struct{ ch, val byte }{{'"', '"'}, {'\\', '\\'}, {'/', '/'}, {'b', 8}, {'f', 12}, {'n', 10}, {'r', 13}, {'t', 9}} {
				if in.Path.Branch(c.Eq(e, c.BV(8, uint64(es.ch)))) {
					out = append(out, c.BV(8, uint64(es.val)))
					handled = true
					break
				}
			}
			if handled {
				i += 2
				continue
			}
			if in.Path.Branch(c.Eq(e, c.BV(8, 'u'))) {
				if i+6 > n {
					return nil
				}
				// four concrete hex digits: any code point of the basic plane (surrogate
				// pairs are outside the bound)
				if bs[i+2].IsConst() && bs[i+3].IsConst() && bs[i+4].IsConst() && bs[i+5].IsConst() {
					hx := string([]byte{byte(bs[i+2].Val), byte(bs[i+3].Val), byte(bs[i+4].Val), byte(bs[i+5].Val)})
					v, perr := strconv.ParseUint(hx, 16, 32)
					if perr != nil {
						return nil
					}
					if v >= 0xd800 && v < 0xe000 {
						in.unsupported("surrogate \\u escape in JSON text")
					}
					for _, x := range []byte(string(rune(v))) {
						out = append(out, c.BV(8, uint64(x)))
					}
					i += 6
					continue
				}
				// \u00XX with concrete "00" and symbolic or concrete hex digits (what the
				// encoder above produces); other code points are outside the bound
				hexv := func(h *sym.Term) (*sym.Term, bool) {
					isNum := c.And(c.Cmp(sym.OpUle, c.BV(8, '0'), h), c.Cmp(sym.OpUle, h, c.BV(8, '9')))
					if in.Path.Branch(isNum) {
						return c.Bin(sym.OpSub, h, c.BV(8, '0')), true
					}
					isLow := c.And(c.Cmp(sym.OpUle, c.BV(8, 'a'), h), c.Cmp(sym.OpUle, h, c.BV(8, 'f')))
					if in.Path.Branch(isLow) {
						return c.Bin(sym.OpSub, h, c.BV(8, 'a'-10)), true
					}
					isUp := c.And(c.Cmp(sym.OpUle, c.BV(8, 'A'), h), c.Cmp(sym.OpUle, h, c.BV(8, 'F')))
					if in.Path.Branch(isUp) {
						return c.Bin(sym.OpSub, h, c.BV(8, 'A'-10)), true
					}
					return nil, false
				}
				h := make([]*sym.Term, 4)
				for k := 0; k < 4; k++ {
					v, ok := hexv(bs[i+2+k])
					if !ok {
						return nil
					}
					h[k] = v
				}
				if !in.Path.Branch(c.And(c.Eq(h[0], c.BV(8, 0)), c.Eq(h[1], c.BV(8, 0)))) {
					in.unsupported("\\u escape beyond U+00FF in symbolic JSON text")
				}
				val := c.Bin(sym.OpBOr, c.Bin(sym.OpShl, h[2], c.BV(8, 4)), h[3])
				if in.Path.Branch(c.Cmp(sym.OpUle, c.BV(8, 0x80), val)) {
					in.unsupported("non-ASCII \\u escape in symbolic JSON text")
				}
				out = append(out, val)
				i += 6
				continue
			}
			return nil
		}
		if r, size, ok := concreteRune(bs, i); ok {
			if r == utf8.RuneError && size == 1 {
				for _, x := range []byte("\ufffd") {
					out = append(out, c.BV(8, uint64(x)))
				}
			} else {
				out = append(out, bs[i:i+size]...)
			}
			i += size
			continue
		}
		if in.Path.Branch(c.Cmp(sym.OpUle, c.BV(8, 0x80), b)) {
			in.unsupported("non-ASCII byte in symbolic JSON string (outside the stated bound)")
		}
		out = append(out, b)
		i++
	}
	return nil // unterminated
}

// ---------- json.Marshal ----------

type jsonErr struct{ msg string }

func (in *Interp) jsonMarshal(t types.Type, v Value) (n *JNode, err *jsonErr) {
	c := in.Ctx
	// Marshaler interface (value or pointer receiver when addressable is not modelled:
	// value receivers only, which is what the library declares)
	if _, isIface := t.Underlying().(*types.Interface); !isIface {
		if isNamed(t, "encoding/json", "RawMessage") {
			s := v.(Slice)
			if s.JSON != nil {
				return s.JSON, nil
			}
			if s.Back == nil {
				return &JNode{Kind: JNull}, nil
			}
			nd := in.jsonOfBytes(s)
			if nd.Kind == JInvalid {
				return nil, &jsonErr{"json: error calling MarshalJSON for type json.RawMessage"}
			}
			return nd, nil
		}
		if isNamed(t, "time", "Time") {
			return &JNode{Kind: JString, Flavor: flTime, Time: copyVal(v)}, nil
		}
		if p, ok := t.Underlying().(*types.Pointer); ok {
			if pv := v.(*Value); pv == nil {
				return &JNode{Kind: JNull}, nil
			} else if ms := in.P.Prog.MethodSets.MethodSet(t); ms.Lookup(nil, "MarshalJSON") == nil || isNamed(p.Elem(), "time", "Time") || isNamed(p.Elem(), "encoding/json", "RawMessage") {
				return in.jsonMarshal(p.Elem(), in.load(pv))
			}
		}
		ms := in.P.Prog.MethodSets.MethodSet(t)
		if sel := ms.Lookup(nil, "MarshalJSON"); sel != nil {
			f := in.P.Prog.MethodValue(sel)
			r := in.callFn(nil, f, nil, []Value{v}, nil).(Tuple)
			if e := r[1].(Iface); e.T != nil {
				return nil, &jsonErr{"json: error calling MarshalJSON"}
			}
			nd := in.jsonOfBytes(r[0].(Slice))
			if nd.Kind == JInvalid {
				return nil, &jsonErr{"json: MarshalJSON returned invalid JSON"}
			}
			return nd, nil
		}
	}
	switch tt := t.Underlying().(type) {
	case *types.Interface:
		iv := v.(Iface)
		if iv.T == nil {
			return &JNode{Kind: JNull}, nil
		}
		if nb, ok := iv.V.(JNumBox); ok {
			return nb.N, nil
		}
		return in.jsonMarshal(iv.T, iv.V)
	case *types.Basic:
		if w, signed, ok := intInfo(tt); ok {
			if w == 0 {
				return &JNode{Kind: JBool, B: term(v)}, nil
			}
			return &JNode{Kind: JNumVal, Val: term(v), Signed: signed}, nil
		}
		if isString(tt) {
			return &JNode{Kind: JString, S: in.utf8Sanitize(v.(Str))}, nil
		}
		if isFloat(tt) {
			b, e := json.Marshal(v.(float64))
			if e != nil {
				return nil, &jsonErr{e.Error()}
			}
			return &JNode{Kind: JNumText, Text: Str{S: string(b)}}, nil
		}
	case *types.Pointer:
		pv := v.(*Value)
		if pv == nil {
			return &JNode{Kind: JNull}, nil
		}
		return in.jsonMarshal(tt.Elem(), in.load(pv))
	case *types.Slice:
		s := v.(Slice)
		if b, ok := tt.Elem().Underlying().(*types.Basic); ok && b.Kind() == types.Uint8 {
			if s.JSON != nil {
				in.unsupported("marshal of JSON text as a plain byte slice")
			}
			if s.Back == nil {
				return &JNode{Kind: JNull}, nil
			}
			back := make([]Value, s.Len)
			copy(back, s.Back[:s.Len])
			return &JNode{Kind: JString, Flavor: flBytes, Bytes: Slice{Back: back, Len: s.Len}}, nil
		}
		if s.Back == nil {
			return &JNode{Kind: JNull}, nil
		}
		n := &JNode{Kind: JArray}
		for i := 0; i < s.Len; i++ {
			e, err := in.jsonMarshal(tt.Elem(), s.Back[i])
			if err != nil {
				return nil, err
			}
			n.Elems = append(n.Elems, e)
		}
		return n, nil
	case *types.Array:
		a := v.(Array)
		n := &JNode{Kind: JArray}
		for i := range a {
			e, err := in.jsonMarshal(tt.Elem(), a[i])
			if err != nil {
				return nil, err
			}
			n.Elems = append(n.Elems, e)
		}
		return n, nil
	case *types.Map:
		m := v.(*Map)
		if m == nil {
			return &JNode{Kind: JNull}, nil
		}
		if !isString(tt.Key()) {
			in.unsupported("marshal of a map with non-string keys")
		}
		n := &JNode{Kind: JObject, FromMap: true}
		for _, e := range m.Entries {
			val, err := in.jsonMarshal(tt.Elem(), e.V)
			if err != nil {
				return nil, err
			}
			n.Keys = append(n.Keys, e.K.(Str))
			n.Vals = append(n.Vals, val)
		}
		return n, nil
	case *types.Struct:
		sv := v.(Struct)
		n := &JNode{Kind: JObject}
		for i := 0; i < tt.NumFields(); i++ {
			f := tt.Field(i)
			if !f.Exported() {
				continue
			}
			name, omitEmpty, skip := jsonFieldName(f, tt.Tag(i))
			if skip {
				continue
			}
			if f.Embedded() {
				in.unsupported("marshal of embedded struct field")
			}
			if omitEmpty && in.jsonIsEmpty(f.Type(), sv[i]) {
				continue
			}
			val, err := in.jsonMarshal(f.Type(), sv[i])
			if err != nil {
				return nil, err
			}
			n.Keys = append(n.Keys, Str{S: name})
			n.Vals = append(n.Vals, val)
		}
		return n, nil
	case *types.Signature, *types.Chan:
		return nil, &jsonErr{"json: unsupported type: " + typeString(t)}
	}
	_ = c
	in.unsupported("json.Marshal of %s", t)
	return nil, nil
}

func jsonFieldName(f *types.Var, tag string) (name string, omitEmpty, skip bool) {
	jt := reflect.StructTag(tag).Get("json")
	if jt == "-" {
		return "", false, true
	}
	parts := strings.Split(jt, ",")
	name = parts[0]
	if name == "" {
		name = f.Name()
	}
	for _, o := range parts[1:] {
		if o == "omitempty" {
			omitEmpty = true
		}
	}
	return name, omitEmpty, false
}

func (in *Interp) jsonIsEmpty(t types.Type, v Value) bool {
	switch x := v.(type) {
	case Str:
		if x.Opq != nil {
			return false
		}
		return x.Len() == 0
	case *sym.Term:
		if x.IsConst() {
			return x.Val == 0
		}
		return in.Path.Branch(in.Ctx.Eq(x, in.zero(t.Underlying()).(*sym.Term)))
	case Slice:
		if x.JSON != nil {
			return false
		}
		return x.Len == 0
	case *Map:
		return in.mapLen(x) == 0
	case *Value:
		return x == nil
	case Iface:
		return x.T == nil
	}
	return false
}

// ---------- json.Unmarshal ----------

type unmarshalState struct {
	err *jsonErr
}

func (u *unmarshalState) fail(msg string) {
	if u.err == nil {
		u.err = &jsonErr{msg}
	}
}

// jsonUnmarshalInto decodes n into the cell p of static type t (documented rules).
func (in *Interp) jsonUnmarshalInto(u *unmarshalState, n *JNode, t types.Type, p *Value) {
	c := in.Ctx
	// Unmarshaler / special types
	if isNamed(t, "encoding/json", "RawMessage") {
		in.store(p, Slice{JSON: n})
		return
	}
	if pt, ok := t.Underlying().(*types.Pointer); ok {
		if n.Kind == JNull {
			in.store(p, (*Value)(nil))
			return
		}
		cur := in.load(p).(*Value)
		if cur == nil {
			cur = new(Value)
			*cur = in.zero(pt.Elem())
			in.store(p, cur)
		}
		in.jsonUnmarshalInto(u, n, pt.Elem(), cur)
		return
	}
	if isNamed(t, "time", "Time") {
		switch {
		case n.Kind == JNull:
		case n.Kind == JString && n.Flavor == flTime:
			in.store(p, copyVal(n.Time))
		case n.Kind == JString && n.Flavor == flPlain && n.S.IsConc():
			tm, e := time.Parse(time.RFC3339, n.S.S)
			if e != nil {
				u.fail("parsing time: not RFC 3339")
				return
			}
			if _, off := tm.Zone(); off != 0 {
				in.unsupported("time literal with a zone offset")
			}
			in.store(p, Struct{in.Ctx.BV(64, uint64(tm.Nanosecond())), in.Ctx.BV(64, uint64(tm.Unix()+62135596800)), (*Value)(nil)})
		case n.Kind == JString && n.Flavor == flPlain:
			in.noteModel("RFC 3339 parsing of an arbitrary symbolic string: rejected (times reach the decoder only as time leaves)")
			u.fail("parsing time: not RFC 3339")
		case n.Kind == JString:
			u.fail("parsing time: not RFC 3339")
		default:
			u.fail("Time.UnmarshalJSON: input is not a JSON string")
		}
		return
	}
	if _, isIface := t.Underlying().(*types.Interface); !isIface {
		pms := in.P.Prog.MethodSets.MethodSet(types.NewPointer(t))
		if sel := pms.Lookup(nil, "UnmarshalJSON"); sel != nil {
			f := in.P.Prog.MethodValue(sel)
			r := in.callFn(nil, f, nil, []Value{p, Slice{JSON: n}}, nil)
			if e := r.(Iface); e.T != nil {
				u.fail("UnmarshalJSON failed")
			}
			return
		}
	}
	switch tt := t.Underlying().(type) {
	case *types.Interface:
		if tt.NumMethods() != 0 {
			if n.Kind != JNull {
				u.fail("json: cannot unmarshal into non-empty interface")
			}
			return
		}
		in.store(p, in.jsonToAny(n))
	case *types.Basic:
		if n.Kind == JNull {
			return
		}
		if isString(tt) {
			if n.Kind != JString {
				u.fail("json: cannot unmarshal into Go value of type string")
				return
			}
			switch n.Flavor {
			case flPlain:
				in.store(p, in.utf8Sanitize(n.S))
			default:
				in.store(p, Str{Opq: &Opaque{What: "text of a time/bytes JSON string", NotNilWord: true}})
			}
			return
		}
		if w, signed, ok := intInfo(tt); ok {
			if w == 0 {
				if n.Kind != JBool {
					u.fail("json: cannot unmarshal into Go value of type bool")
					return
				}
				in.store(p, n.B)
				return
			}
			switch n.Kind {
			case JNumVal:
				r := in.jsonParseNumber(n, w, signed).(Tuple)
				if r[1].(Iface).T != nil {
					u.fail("json: cannot unmarshal number into Go value (range)")
					return
				}
				in.store(p, c.Extract(term(r[0]), 0, w))
			case JNumText:
				if !n.Text.IsConc() {
					in.unsupported("decoding a symbolic number literal into an integer")
				}
				var okc bool
				var bits uint64
				if signed {
					x, e := strconv.ParseInt(n.Text.S, 10, w)
					okc, bits = e == nil, uint64(x)
				} else {
					x, e := strconv.ParseUint(n.Text.S, 10, w)
					okc, bits = e == nil, x
				}
				if !okc {
					u.fail("json: cannot unmarshal number into Go value")
					return
				}
				in.store(p, c.BV(w, bits))
			default:
				u.fail("json: cannot unmarshal into Go value of integer type")
			}
			return
		}
		if isFloat(tt) {
			in.unsupported("decoding into a float")
		}
	case *types.Slice:
		if b, ok := tt.Elem().Underlying().(*types.Basic); ok && b.Kind() == types.Uint8 {
			switch {
			case n.Kind == JNull:
				in.store(p, Slice{})
			case n.Kind == JString && n.Flavor == flBytes:
				back := make([]Value, n.Bytes.Len)
				copy(back, n.Bytes.Back[:n.Bytes.Len])
				in.store(p, Slice{Back: back, Len: len(back)})
			case n.Kind == JString && n.Flavor == flPlain && n.S.IsConc():
				var out []byte
				if e := json.Unmarshal([]byte(strconv.Quote(n.S.S)), &out); e != nil {
					u.fail("illegal base64 data")
					return
				}
				back := make([]Value, len(out))
				for i := range out {
					back[i] = c.BV(8, uint64(out[i]))
				}
				in.store(p, Slice{Back: back, Len: len(back)})
			case n.Kind == JString && n.Flavor == flPlain:
				in.noteModel("base64 decoding of an arbitrary symbolic string: rejected (byte strings reach the decoder only as bytes leaves)")
				u.fail("illegal base64 data")
			case n.Kind == JString:
				u.fail("illegal base64 data")
			case n.Kind == JArray:
				// an array of numbers decodes element-wise into a []uint8
				back := make([]Value, len(n.Elems))
				for i := range back {
					back[i] = in.zero(tt.Elem())
				}
				for i, e := range n.Elems {
					in.jsonUnmarshalInto(u, e, tt.Elem(), &back[i])
				}
				in.store(p, Slice{Back: back, Len: len(back)})
			default:
				u.fail("json: cannot unmarshal into Go value of type []uint8")
			}
			return
		}
		switch n.Kind {
		case JNull:
			in.store(p, Slice{})
		case JArray:
			// "Unmarshal resets the slice length to zero and then appends each element": while
			// the target's capacity lasts, the elements are decoded into its own backing array
			// (into the values already there: members a JSON object does not mention keep
			// what they held); beyond it a new array is allocated. An empty array gives a new
			// empty slice.
			cur, _ := in.load(p).(Slice)
			if len(n.Elems) > 0 && cur.JSON == nil && len(cur.Back) >= len(n.Elems) {
				for i, e := range n.Elems {
					in.checkWrite(&cur.Back[i])
					in.jsonUnmarshalInto(u, e, tt.Elem(), &cur.Back[i])
				}
				in.store(p, Slice{Back: cur.Back, Len: len(n.Elems)})
				return
			}
			back := make([]Value, len(n.Elems))
			for i := range back {
				if cur.JSON == nil && i < len(cur.Back) {
					back[i] = copyVal(cur.Back[i])
				} else {
					back[i] = in.zero(tt.Elem())
				}
			}
			for i, e := range n.Elems {
				in.jsonUnmarshalInto(u, e, tt.Elem(), &back[i])
			}
			in.store(p, Slice{Back: back, Len: len(back)})
		default:
			u.fail("json: cannot unmarshal into Go value of slice type")
		}
	case *types.Map:
		switch n.Kind {
		case JNull:
			in.store(p, (*Map)(nil))
		case JObject:
			if !isString(tt.Key()) {
				in.unsupported("decoding into a map with non-string keys")
			}
			m, _ := in.load(p).(*Map)
			if m == nil {
				in.mapSeq++
				m = &Map{KeyT: tt.Key(), ValT: tt.Elem(), ID: in.mapSeq}
				in.store(p, m)
			}
			for i, k := range n.Keys {
				cell := new(Value)
				*cell = in.zero(tt.Elem())
				in.jsonUnmarshalInto(u, n.Vals[i], tt.Elem(), cell)
				in.mapUpdate(m, k, *cell)
			}
		default:
			u.fail("json: cannot unmarshal into Go value of map type")
		}
	case *types.Struct:
		switch n.Kind {
		case JNull:
		case JObject:
			sp := (*p).(Struct)
			for i, k := range n.Keys {
				fi := in.jsonFindField(tt, k)
				if fi < 0 {
					continue
				}
				in.jsonUnmarshalInto(u, n.Vals[i], tt.Field(fi).Type(), &sp[fi])
			}
		default:
			u.fail("json: cannot unmarshal into Go struct")
		}
	default:
		in.unsupported("json.Unmarshal into %s", t)
	}
}

// jsonFindField: exact match first, then case-insensitive (ASCII folding).
func (in *Interp) jsonFindField(tt *types.Struct, key Str) int {
	type cand struct {
		idx  int
		name string
	}
	var cands []cand
	for i := 0; i < tt.NumFields(); i++ {
		f := tt.Field(i)
		if !f.Exported() {
			continue
		}
		name, _, skip := jsonFieldName(f, tt.Tag(i))
		if skip {
			continue
		}
		cands = append(cands, cand{i, name})
	}
	if key.IsConc() {
		for _, cd := range cands {
			if cd.name == key.S {
				return cd.idx
			}
		}
		for _, cd := range cands {
			if strings.EqualFold(cd.name, key.S) {
				return cd.idx
			}
		}
		return -1
	}
	if key.Opq != nil {
		in.unsupported("opaque JSON member name")
	}
	// symbolic key: exact or case-folded match decided per candidate of equal length
	for pass := 0; pass < 2; pass++ {
		for _, cd := range cands {
			if len(cd.name) != key.Len() {
				continue
			}
			eq := in.Ctx.T
			for j := 0; j < len(cd.name); j++ {
				b := in.strAt(key, j)
				ch := cd.name[j]
				m := in.Ctx.Eq(b, in.Ctx.BV(8, uint64(ch)))
				if pass == 1 {
					lc, uc := ch, ch
					if ch >= 'a' && ch <= 'z' {
						uc = ch - 32
					} else if ch >= 'A' && ch <= 'Z' {
						lc = ch + 32
					}
					m = in.Ctx.Or(in.Ctx.Eq(b, in.Ctx.BV(8, uint64(lc))), in.Ctx.Eq(b, in.Ctx.BV(8, uint64(uc))))
				}
				eq = in.Ctx.And(eq, m)
			}
			if in.Path.Branch(eq) {
				return cd.idx
			}
		}
	}
	return -1
}

func (in *Interp) anyType() types.Type { return types.NewInterfaceType(nil, nil) }

func (in *Interp) jsonToAny(n *JNode) Value {
	switch n.Kind {
	case JNull:
		return Iface{}
	case JBool:
		return Iface{T: types.Typ[types.Bool], V: n.B}
	case JNumText, JNumVal:
		// a concrete number is the float64 encoding/json stores; a symbolic one stays boxed
		// (the library does not compute with decoded numbers)
		if n.Kind == JNumVal && n.Val.IsConst() {
			if n.Signed {
				return Iface{T: types.Typ[types.Float64], V: float64(n.Val.Int())}
			}
			return Iface{T: types.Typ[types.Float64], V: float64(n.Val.Val)}
		}
		if n.Kind == JNumText && n.Text.IsConc() {
			if f, err := strconv.ParseFloat(n.Text.S, 64); err == nil {
				return Iface{T: types.Typ[types.Float64], V: f}
			}
		}
		return Iface{T: types.Typ[types.Float64], V: JNumBox{n}}
	case JString:
		if n.Flavor != flPlain {
			return Iface{T: types.Typ[types.String], V: Str{Opq: &Opaque{What: "text of a time/bytes JSON string", NotNilWord: true}}}
		}
		return Iface{T: types.Typ[types.String], V: n.S}
	case JArray:
		back := make([]Value, len(n.Elems))
		for i, e := range n.Elems {
			back[i] = in.jsonToAny(e)
		}
		return Iface{T: types.NewSlice(in.anyType()), V: Slice{Back: back, Len: len(back)}}
	case JObject:
		in.mapSeq++
		m := &Map{KeyT: types.Typ[types.String], ValT: in.anyType(), ID: in.mapSeq}
		for i, k := range n.Keys {
			in.mapUpdate(m, k, in.jsonToAny(n.Vals[i]))
		}
		return Iface{T: types.NewMap(types.Typ[types.String], in.anyType()), V: m}
	}
	in.unsupported("jsonToAny of invalid JSON")
	return nil
}

func init() {
	intrinsics["encoding/json.Marshal"] = func(in *Interp, fr *frame, call *ssa.CallCommon, args []Value) Value {
		in.noteModel("encoding/json.Marshal (abstract JSON documents)")
		iv := args[0].(Iface)
		var n *JNode
		var err *jsonErr
		if iv.T == nil {
			n = &JNode{Kind: JNull}
		} else {
			n, err = in.jsonMarshal(iv.T, iv.V)
		}
		if err != nil {
			return Tuple{Slice{}, in.newError(Str{S: err.msg})}
		}
		return Tuple{Slice{JSON: n}, Iface{}}
	}
	intrinsics["encoding/json.Unmarshal"] = func(in *Interp, fr *frame, call *ssa.CallCommon, args []Value) Value {
		in.noteModel("encoding/json.Unmarshal (abstract JSON documents)")
		data := args[0].(Slice)
		target := args[1].(Iface)
		if data.JSON == nil && data.Len == 0 {
			return in.newError(Str{S: "unexpected end of JSON input"})
		}
		n := in.jsonOfBytes(data)
		if n.Kind == JInvalid {
			return in.newError(Str{S: "invalid character"})
		}
		if target.T == nil {
			return in.newError(Str{S: "json: Unmarshal(nil)"})
		}
		pt, ok := target.T.Underlying().(*types.Pointer)
		if !ok {
			return in.newError(Str{S: "json: Unmarshal(non-pointer)"})
		}
		p := target.V.(*Value)
		if p == nil {
			return in.newError(Str{S: "json: Unmarshal(nil pointer)"})
		}
		u := &unmarshalState{}
		in.jsonUnmarshalInto(u, n, pt.Elem(), p)
		if u.err != nil {
			return in.newError(Str{S: u.err.msg})
		}
		return Iface{}
	}
}


// ---------- UTF-8 in JSON strings ----------
//
// Symbolic bytes are ASCII by the harnesses' assumption (a symbolic byte >= 0x80 ends the path
// as unsupported wherever text is rendered); concrete bytes may be anything. encoding/json
// writes valid multi-byte sequences as they are, U+2028/U+2029 as \u2028/\u2029 and every byte
// that is not part of a valid sequence as \ufffd; reading replaces such bytes by U+FFFD.

// concreteRune decodes the UTF-8 sequence starting at bs[i] if bs[i] is a concrete byte
// >= 0x80. Concrete continuation bytes are taken while they are concrete (a symbolic byte is
// ASCII and cannot continue a sequence). ok is false if bs[i] is symbolic or ASCII.
func concreteRune(bs []*sym.Term, i int) (r rune, size int, ok bool) {
	if !bs[i].IsConst() || bs[i].Val < 0x80 {
		return 0, 0, false
	}
	var buf []byte
	for j := i; j < len(bs) && len(buf) < 4 && bs[j].IsConst(); j++ {
		buf = append(buf, byte(bs[j].Val))
	}
	r, size = utf8.DecodeRune(buf)
	return r, size, true
}

// utf8Sanitize returns s with every concrete byte that is not part of a valid UTF-8 sequence
// replaced by U+FFFD (what a string is after crossing encoding/json in either direction).
func (in *Interp) utf8Sanitize(s Str) Str {
	if s.Opq != nil {
		return s
	}
	if s.IsConc() {
		if utf8.ValidString(s.S) {
			return s
		}
		var sb strings.Builder
		for i := 0; i < len(s.S); {
			r, size := utf8.DecodeRuneInString(s.S[i:])
			if r == utf8.RuneError && size == 1 {
				sb.WriteString("\ufffd")
			} else {
				sb.WriteString(s.S[i : i+size])
			}
			i += size
		}
		return Str{S: sb.String()}
	}
	bs := in.strBytes(s)
	changed := false
	var out []*sym.Term
	for i := 0; i < len(bs); {
		r, size, ok := concreteRune(bs, i)
		if !ok {
			out = append(out, bs[i])
			i++
			continue
		}
		if r == utf8.RuneError && size == 1 {
			for _, b := range []byte("\ufffd") {
				out = append(out, in.Ctx.BV(8, uint64(b)))
			}
			changed = true
		} else {
			out = append(out, bs[i:i+size]...)
		}
		i += size
	}
	if !changed {
		return s
	}
	return in.mkStr(out)
}

// Package exec is the symbolic interpreter for go/ssa.
package exec

import (
	"fmt"
	"go/types"
	"strings"

	"golang.org/x/tools/go/ssa"

	"vsym/sym"
)

// Value is the dynamic value of an SSA register or memory cell:
//
//	*sym.Term      bool and all integer kinds (bit-vector of the kind's width)
//	float64        floating point (concrete only)
//	Str            string (concrete length; bytes concrete or symbolic)
//	Struct, Array  aggregates ([]Value; copied on load/store)
//	Slice          slice header over a shared backing []Value
//	*Value         pointer (to a cell, a struct field, an array/slice element)
//	*Map           map (nil = nil map)
//	Iface          interface value (T == nil = nil interface)
//	*Closure, *ssa.Function, *ssa.Builtin   function values
//	Tuple          multiple results
//	*MapIter, *StrIter   range iterators
//	*JSONText lives inside Slice.JSON (abstract JSON documents, see json.go)
type Value interface{}

type Struct []Value
type Array []Value
type Tuple []Value

// Str is an immutable string of concrete length. If B == nil the string is the
// concrete S; otherwise B holds one 8-bit term per byte. Opq != nil marks an opaque
// string (content not modelled; only identity is known).
type Str struct {
	S   string
	B   []*sym.Term
	Opq *Opaque
}

// Opaque is the content of a string the engine does not model byte by byte
// (formatted messages, decimal renderings of symbolic integers, JSON text of
// composite documents).
type Opaque struct {
	What string
	// JSON, when set, is the abstract JSON document this text denotes.
	JSON *JNode
	// NotNilWord: known to differ from "<nil>".
	NotNilWord bool
	// Ptr, when set: the text is that of this non-nil pointer ("0x" and hex digits).
	Ptr *Value
	// Tag, when set, marks the string as the struct tag of a symbolic struct field (C20).
	Tag *SymField
}

func (s Str) Len() int {
	if s.Opq != nil {
		panic(&Unsupported{"len of opaque string (" + s.Opq.What + ")"})
	}
	if s.B != nil {
		return len(s.B)
	}
	return len(s.S)
}

func (s Str) IsConc() bool { return s.B == nil && s.Opq == nil }

// Slice is a slice header. Back spans the backing store from the slice's first
// element to its capacity (len(Back) == cap). Back == nil is the nil slice.
// JSON != nil marks a []byte holding an abstract JSON text (see json.go); Back is
// then nil and Len 0.
type Slice struct {
	Back []Value
	Len  int
	JSON *JNode
}

type Iface struct {
	T types.Type
	V Value
}

type Closure struct {
	Fn  *ssa.Function
	Env []Value
}

type MapEntry struct {
	K, V    Value
	Deleted bool
}

type Map struct {
	Entries []*MapEntry
	KeyT    types.Type
	ValT    types.Type
	Frozen  bool
	ID      int
}

type MapIter struct {
	M    *Map
	Ents []*MapEntry
	I    int
}

type StrIter struct {
	S string
	I int
}

// ---- control-flow signals raised with Go panics inside the interpreter ----

// ProgPanic is a run-time panic of the interpreted program.
type ProgPanic struct {
	Msg string
	Val Value
}

// Unsupported aborts a path on a construct the engine cannot model.
type Unsupported struct{ Msg string }

// BoundHit aborts a path that exceeded an unwinding/instruction bound.
type BoundHit struct{ Msg string }

// PathEnd aborts a path silently (infeasible assumption, assertion-violation branch).
type PathEnd struct{ Why string }

func (u *Unsupported) Error() string { return "unsupported: " + u.Msg }

// ---- type helpers ----

func isNamed(t types.Type, pkg, name string) bool {
	n, ok := t.(*types.Named)
	if !ok {
		return false
	}
	o := n.Obj()
	return o.Name() == name && o.Pkg() != nil && o.Pkg().Path() == pkg
}

// intInfo returns width and signedness for integer/bool basic types (w=0 for bool).
func intInfo(t types.Type) (w int, signed bool, ok bool) {
	b, isb := t.Underlying().(*types.Basic)
	if !isb {
		return 0, false, false
	}
	switch b.Kind() {
	case types.Bool, types.UntypedBool:
		return 0, false, true
	case types.Int, types.Int64, types.UntypedInt:
		return 64, true, true
	case types.Int8:
		return 8, true, true
	case types.Int16:
		return 16, true, true
	case types.Int32, types.UntypedRune:
		return 32, true, true
	case types.Uint, types.Uint64, types.Uintptr:
		return 64, false, true
	case types.Uint8:
		return 8, false, true
	case types.Uint16:
		return 16, false, true
	case types.Uint32:
		return 32, false, true
	}
	return 0, false, false
}

func isString(t types.Type) bool {
	b, ok := t.Underlying().(*types.Basic)
	return ok && b.Info()&types.IsString != 0
}

func isFloat(t types.Type) bool {
	b, ok := t.Underlying().(*types.Basic)
	return ok && b.Info()&types.IsFloat != 0
}

func deref(t types.Type) types.Type {
	if p, ok := t.Underlying().(*types.Pointer); ok {
		return p.Elem()
	}
	panic(fmt.Sprintf("deref of non-pointer %s", t))
}

// typeString renders a type the way fmt's %T and reflect.Type.String do.
func typeString(t types.Type) string {
	switch t := t.(type) {
	case *types.Basic:
		switch t.Kind() {
		case types.Uint8:
			return "uint8"
		case types.Int32:
			return "int32"
		case types.UntypedNil:
			return "<nil>"
		}
		return t.Name()
	case *types.Pointer:
		return "*" + typeString(t.Elem())
	case *types.Slice:
		return "[]" + typeString(t.Elem())
	case *types.Array:
		return fmt.Sprintf("[%d]%s", t.Len(), typeString(t.Elem()))
	case *types.Map:
		return "map[" + typeString(t.Key()) + "]" + typeString(t.Elem())
	case *types.Named:
		o := t.Obj()
		if o.Pkg() == nil {
			return o.Name()
		}
		return o.Pkg().Name() + "." + o.Name()
	case *types.Alias:
		return typeString(types.Unalias(t))
	case *types.Interface:
		if t.NumMethods() == 0 {
			return "interface {}"
		}
	}
	s := types.TypeString(t, func(p *types.Package) string { return p.Name() })
	return strings.ReplaceAll(s, "interface{}", "interface {}")
}

package exec

import (
	"fmt"
	"go/types"

	"golang.org/x/tools/go/ssa"

	"vsym/sym"
)

// Symbolic struct types for C20: the harness asks for "any struct a program could declare"
// within a bound; field names and Go types are chosen by decisions, tags are symbolic strings
// (natively the type is built with reflect.StructOf from the model).

// fieldTypeTable must agree with vFieldTypes in the native runtime.
func (in *Interp) fieldTypeTable() []types.Type {
	str := types.Typ[types.String]
	u8 := types.Typ[types.Uint8]
	tm := in.P.Prog.ImportedPackage("time").Type("Time").Type()
	return []types.Type{
		str,                                // 0 string
		types.Typ[types.Int],               // 1 int
		types.NewPointer(types.Typ[types.Int]), // 2 *int
		u8,                                 // 3 uint8
		types.Typ[types.Bool],              // 4 bool
		tm,                                 // 5 time.Time
		types.NewSlice(u8),                 // 6 []uint8
		types.NewPointer(types.NewSlice(u8)), // 7 *[]uint8
		types.NewSlice(str),                // 8 []string
		types.NewPointer(str),              // 9 *string
		types.Typ[types.Float64],           // 10 float64
		types.NewSlice(types.Typ[types.Int]), // 11 []int
		types.NewMap(str, str),             // 12 map[string]string
		in.harnessType("vUserID"),                 // 13 a named string type
		types.NewSlice(in.harnessType("vUserID")), // 14 a slice of a named string type
		in.harnessType("vIDs"),                    // 15 a named []string type
	}
}

// liteTypes: the field types of the pair mode (indexes into fieldTypeTable): string, int,
// []string. Must agree with vLiteTypes in the native runtime.
var liteTypes = []int{0, 1, 8}

func (in *Interp) tagString(name string, lo, hi int) Str {
	b := in.nondetBytes(name, lo, hi, "str")
	c := in.Ctx
	for _, t := range b {
		// printable ASCII without the double quote and the backslash (tag syntax)
		in.Path.Assume(c.And(c.And(c.Cmp(sym.OpUle, c.BV(8, 0x20), t), c.Cmp(sym.OpUle, t, c.BV(8, 0x7e))),
			c.And(c.Not(c.Eq(t, c.BV(8, '"'))), c.Not(c.Eq(t, c.BV(8, '\\'))))))
	}
	if len(b) == 0 {
		return Str{}
	}
	return Str{B: b}
}

func init() {
	// vNondetStruct(tag, maxFields) interface{}: a value of a symbolic struct type.
	intrinsics[hpkg+"vNondetStruct"] = func(in *Interp, fr *frame, call *ssa.CallCommon, args []Value) Value {
		tag := in.mustConcStr(args[0], "name")
		maxF := in.concInt(args[1], "max fields")
		tbl := in.fieldTypeTable()
		choice := func(name string, n int) int {
			in.Path.ndNames[name] = true
			d := 0
			if n > 1 {
				d = in.Path.Choose(n, nil)
			}
			in.Path.Nondets = append(in.Path.Nondets, &NondetRec{Name: name, Kind: "choice", Idx: d})
			return d
		}
		if in.Path.ndNames == nil {
			in.Path.ndNames = map[string]bool{}
		}
		desc := &SymStruct{Name: ""}
		// maxFields < 0: "pair" mode: a valid ID field (string, api "t", json "id"), exactly
		// -maxFields fields, field types from a short list (liteTypes)
		lite := maxF < 0
		// maxFields == -100: "micro" mode: a valid ID field and one string field whose api tag
		// is absent, empty, "attr" or "rel" and whose json tag is absent or one symbolic byte
		micro := maxF == -100
		if micro {
			maxF = -1
		}
		if lite {
			desc.Fields = append(desc.Fields, SymField{Name: "ID", T: tbl[0], HasAPI: true, API: Str{S: "t"}, HasJSON: true, JSON: Str{S: "id"}})
		}
		// ID field: 0 absent, 1 string, 2 int, 3 a named string type
		idKind := 0
		if !lite {
			idKind = choice(tag+".idkind", 4)
		}
		if idKind > 0 {
			f := SymField{Name: "ID", T: tbl[0]}
			if idKind == 2 {
				f.T = tbl[1]
			}
			if idKind == 3 {
				f.T = tbl[13]
			}
			switch choice(tag+".idapi", 3) { // absent, empty, symbolic 1..2
			case 1:
				f.HasAPI = true
			case 2:
				f.HasAPI = true
				f.API = in.tagString(tag+".idapi.s", 1, 2)
			}
			switch choice(tag+".idjson", 3) { // absent, "id", symbolic 1
			case 1:
				f.HasJSON, f.JSON = true, Str{S: "id"}
			case 2:
				f.HasJSON = true
				f.JSON = in.tagString(tag+".idjson.s", 1, 1)
			}
			desc.Fields = append(desc.Fields, f)
		}
		nf := -maxF
		if !lite {
			nf = choice(tag+".nfields", maxF+1)
		}
		for i := 0; i < nf; i++ {
			p := fmt.Sprintf("%s.f%d", tag, i)
			var ft types.Type
			if lite {
				nt := len(liteTypes)
				if micro {
					nt = 1
				}
				ft = tbl[liteTypes[choice(p+".type", nt)]]
			} else {
				ft = tbl[choice(p+".type", len(tbl))]
			}
			f := SymField{Name: fmt.Sprintf("F%d", i), T: ft}
			// api tag families
			napi, njson := 8, 4
			if micro {
				napi, njson = 4, 2
			}
			switch choice(p+".api", napi) {
			case 0: // absent
			case 1:
				f.HasAPI = true // empty
			case 2:
				f.HasAPI, f.API = true, Str{S: "attr"}
			case 3:
				f.HasAPI, f.API = true, Str{S: "rel"}
			case 4:
				f.HasAPI = true
				f.API = in.strConcat(Str{S: "rel,"}, in.tagString(p+".t1", 0, 1))
			case 5:
				f.HasAPI = true
				f.API = in.strConcat(in.strConcat(Str{S: "rel,"}, in.tagString(p+".t1", 0, 1)), in.strConcat(Str{S: ","}, in.tagString(p+".t2", 0, 1)))
			case 6:
				f.HasAPI, f.API = true, Str{S: "rel,a,b,c"}
			case 7:
				f.HasAPI = true
				f.API = in.tagString(p+".any", 1, 3)
			}
			switch choice(p+".json", njson) { // absent, symbolic 1, "id", same as previous field
			case 1:
				f.HasJSON = true
				f.JSON = in.tagString(p+".json.s", 1, 1)
			case 2:
				f.HasJSON, f.JSON = true, Str{S: "id"}
			case 3:
				f.HasJSON, f.JSON = true, Str{S: "dup"}
			}
			desc.Fields = append(desc.Fields, f)
		}
		// the Go type: an unnamed struct type (tags are symbolic and live in the descriptor)
		vars := make([]*types.Var, len(desc.Fields))
		for i, f := range desc.Fields {
			vars[i] = types.NewField(0, nil, f.Name, f.T, false)
		}
		st := types.NewStruct(vars, nil)
		val := in.zeroSym(desc)
		nptr := 2
		if micro {
			nptr = 1
		}
		if choice(tag+".byptr", nptr) == 1 {
			cell := new(Value)
			*cell = val
			return Iface{T: types.NewPointer(st), V: &SymStructVal{Desc: desc, Ptr: cell}}
		}
		return Iface{T: st, V: &SymStructVal{Desc: desc, Fields: val.(Struct)}}
	}
	// vStructInfo(v) (nFields int): number of fields of the symbolic struct
	intrinsics[hpkg+"vStructNumField"] = func(in *Interp, fr *frame, call *ssa.CallCommon, args []Value) Value {
		ss := args[0].(Iface).V.(*SymStructVal)
		return in.Ctx.BV(64, uint64(len(ss.Desc.Fields)))
	}
	intrinsics[hpkg+"vStructFieldName"] = func(in *Interp, fr *frame, call *ssa.CallCommon, args []Value) Value {
		ss := args[0].(Iface).V.(*SymStructVal)
		return Str{S: ss.Desc.Fields[in.concInt(args[1], "i")].Name}
	}
	intrinsics[hpkg+"vStructFieldType"] = func(in *Interp, fr *frame, call *ssa.CallCommon, args []Value) Value {
		ss := args[0].(Iface).V.(*SymStructVal)
		return Str{S: typeString(ss.Desc.Fields[in.concInt(args[1], "i")].T)}
	}
	// vStructTag(v, i, key) (value string, present bool)
	intrinsics[hpkg+"vStructTag"] = func(in *Interp, fr *frame, call *ssa.CallCommon, args []Value) Value {
		ss := args[0].(Iface).V.(*SymStructVal)
		f := ss.Desc.Fields[in.concInt(args[1], "i")]
		switch in.mustConcStr(args[2], "key") {
		case "api":
			return Tuple{f.API, in.Ctx.Bool(f.HasAPI)}
		case "json":
			return Tuple{f.JSON, in.Ctx.Bool(f.HasJSON)}
		}
		return Tuple{Str{}, in.Ctx.F}
	}
	// vStructFieldZero(v, i) interface{}: the zero value of field i's type
	intrinsics[hpkg+"vStructFieldZero"] = func(in *Interp, fr *frame, call *ssa.CallCommon, args []Value) Value {
		ss := args[0].(Iface).V.(*SymStructVal)
		t := ss.Desc.Fields[in.concInt(args[1], "i")].T
		return Iface{T: t, V: in.zero(t)}
	}
}

func (in *Interp) harnessType(name string) types.Type {
	m := in.P.Pkg.Type(name)
	if m == nil {
		in.unsupported("harness type %s not declared", name)
	}
	return m.Type()
}

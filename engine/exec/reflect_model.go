package exec

import (
	"fmt"
	"go/types"
	"reflect"
	"strings"

	"golang.org/x/tools/go/ssa"

	"vsym/sym"
)

// Descriptor model of package reflect (DESIGN.md §2.8). A reflect.Type is a descriptor of a
// go/types type; a reflect.Value is (descriptor, cell of the engine holding the value, flags).
// Every entry point the library uses reproduces the documented result including its panics.

// RType is the descriptor stored behind reflect.Type and inside reflect.Value.
type RType struct {
	T types.Type
	// Sym, when set, is a symbolic struct descriptor (C20): field names/types concrete per
	// path, tags symbolic.
	Sym *SymStruct
}

// SymStruct describes a struct type whose tags are symbolic strings.
type SymStruct struct {
	Name   string
	Fields []SymField
}

type SymField struct {
	Name    string
	T       types.Type
	HasAPI  bool
	API     Str
	HasJSON bool
	JSON    Str
}

const (
	rfValid = 1
	rfAddr  = 2
	rfRO    = 4 // obtained through an unexported, non-embedded field (reflect's flagStickyRO)
	rfEmbRO = 8 // the value IS an unexported embedded field (flagEmbedRO: not inherited by its fields)
)

func (in *Interp) rtypeIfaceType() types.Type {
	pkg := in.P.Prog.ImportedPackage("reflect")
	if pkg == nil {
		in.unsupported("package reflect not loaded")
	}
	return types.NewPointer(pkg.Type("rtype").Type())
}

func (in *Interp) mkRTypeIface(t RType) Value { return Iface{T: in.rtypeIfaceType(), V: t} }

func (in *Interp) mkRValue(t RType, cell *Value, flags uint64) Value {
	return Struct{t, cell, in.Ctx.BV(64, flags)}
}

type rval struct {
	t     RType
	cell  *Value
	flags uint64
}

func (in *Interp) rv(v Value) rval {
	s, ok := v.(Struct)
	if !ok || len(s) != 3 {
		in.unsupported("reflect.Value of unexpected shape %T", v)
	}
	t, _ := s[0].(RType)
	c, _ := s[1].(*Value)
	f, _ := s[2].(*sym.Term)
	var fl uint64
	if f != nil {
		fl = f.Val
	}
	if _, isR := s[0].(RType); !isR {
		fl = 0
	}
	return rval{t, c, fl}
}

func rkind(t types.Type) reflect.Kind {
	switch u := t.Underlying().(type) {
	case *types.Basic:
		switch u.Kind() {
		case types.Bool:
			return reflect.Bool
		case types.Int:
			return reflect.Int
		case types.Int8:
			return reflect.Int8
		case types.Int16:
			return reflect.Int16
		case types.Int32:
			return reflect.Int32
		case types.Int64:
			return reflect.Int64
		case types.Uint:
			return reflect.Uint
		case types.Uint8:
			return reflect.Uint8
		case types.Uint16:
			return reflect.Uint16
		case types.Uint32:
			return reflect.Uint32
		case types.Uint64:
			return reflect.Uint64
		case types.Uintptr:
			return reflect.Uintptr
		case types.Float32:
			return reflect.Float32
		case types.Float64:
			return reflect.Float64
		case types.String:
			return reflect.String
		case types.UnsafePointer:
			return reflect.UnsafePointer
		}
	case *types.Pointer:
		return reflect.Ptr
	case *types.Struct:
		return reflect.Struct
	case *types.Slice:
		return reflect.Slice
	case *types.Array:
		return reflect.Array
	case *types.Map:
		return reflect.Map
	case *types.Interface:
		return reflect.Interface
	case *types.Signature:
		return reflect.Func
	case *types.Chan:
		return reflect.Chan
	}
	return reflect.Invalid
}

func (in *Interp) rstruct(t RType) *types.Struct {
	st, ok := t.T.Underlying().(*types.Struct)
	if !ok {
		in.goPanic("reflect: call of struct method on non-struct type " + typeString(t.T))
	}
	return st
}

func (in *Interp) structFieldType() *types.Named {
	return in.P.Prog.ImportedPackage("reflect").Type("StructField").Type().(*types.Named)
}

// mkStructField builds a reflect.StructField value for field i of t.
func (in *Interp) mkStructField(t RType, i int) Value {
	sft := in.structFieldType()
	sf := in.zero(sft).(Struct)
	st := sft.Underlying().(*types.Struct)
	set := func(name string, v Value) { sf[fieldIndex(st, name)] = v }
	var fname string
	var ftype types.Type
	var tag Str
	exported := true
	if t.Sym != nil {
		f := t.Sym.Fields[i]
		fname, ftype = f.Name, f.T
		tag = Str{Opq: &Opaque{What: "symbolic struct tag", Tag: &t.Sym.Fields[i]}}
	} else {
		s := in.rstruct(t)
		f := s.Field(i)
		fname, ftype = f.Name(), f.Type()
		tag = Str{S: s.Tag(i)}
		exported = f.Exported()
		set("Anonymous", in.Ctx.Bool(f.Embedded()))
	}
	set("Name", Str{S: fname})
	if !exported {
		set("PkgPath", Str{S: "unexported"})
	}
	set("Type", in.mkRTypeIface(RType{T: ftype}))
	set("Tag", tag)
	idx := []Value{in.Ctx.BV(64, uint64(i))}
	set("Index", Slice{Back: idx, Len: 1})
	return sf
}

func (in *Interp) rnumField(t RType) int {
	if t.Sym != nil {
		return len(t.Sym.Fields)
	}
	return in.rstruct(t).NumFields()
}

func (in *Interp) rfieldByName(t RType, name string) int {
	if t.Sym != nil {
		for i, f := range t.Sym.Fields {
			if f.Name == name {
				return i
			}
		}
		return -1
	}
	st := in.rstruct(t)
	for i := 0; i < st.NumFields(); i++ {
		if st.Field(i).Name() == name {
			return i
		}
	}
	return -1
}

// rpromoted finds a field promoted from an embedded struct field of t (one level deep, the
// embedded field being a struct, not a pointer): (index of the embedded field, index within).
// Ambiguous names (promoted from two embedded structs) are not found, as in Go.
func (in *Interp) rpromoted(t RType, name string) (int, int) {
	if t.Sym != nil {
		return -1, -1
	}
	st := in.rstruct(t)
	fe, fj, n := -1, -1, 0
	for e := 0; e < st.NumFields(); e++ {
		f := st.Field(e)
		if !f.Embedded() {
			continue
		}
		es, ok := f.Type().Underlying().(*types.Struct)
		if !ok {
			continue
		}
		for j := 0; j < es.NumFields(); j++ {
			if es.Field(j).Name() == name {
				fe, fj = e, j
				n++
			}
		}
	}
	if n != 1 {
		return -1, -1
	}
	return fe, fj
}

func (in *Interp) rfieldType(t RType, i int) (types.Type, bool) {
	if t.Sym != nil {
		return t.Sym.Fields[i].T, true
	}
	f := in.rstruct(t).Field(i)
	return f.Type(), f.Exported()
}

func rtypeString(t RType) string {
	if t.Sym != nil {
		return "struct {...}"
	}
	return typeString(t.T)
}

func init() {
	reg := func(name string, f Intrinsic) { intrinsics[name] = f }
	model := func(in *Interp) { in.noteModel("package reflect (descriptor model over go/types)") }

	reg("reflect.ValueOf", func(in *Interp, fr *frame, call *ssa.CallCommon, args []Value) Value {
		model(in)
		iv := args[0].(Iface)
		if iv.T == nil {
			return in.zero(call.Signature().Results().At(0).Type())
		}
		cell := new(Value)
		t := RType{T: iv.T}
		if ss, ok := iv.V.(*SymStructVal); ok {
			t.Sym = ss.Desc
			if ss.Ptr != nil {
				*cell = ss.Ptr
			} else {
				*cell = copyVal(ss.Fields)
			}
		} else {
			*cell = copyVal(iv.V)
		}
		return in.mkRValue(t, cell, rfValid)
	})
	reg("reflect.New", func(in *Interp, fr *frame, call *ssa.CallCommon, args []Value) Value {
		model(in)
		ti := args[0].(Iface)
		if ti.T == nil {
			in.goPanic("reflect: New(nil)")
		}
		t := ti.V.(RType)
		target := new(Value)
		if t.Sym != nil {
			*target = in.zeroSym(t.Sym)
		} else {
			*target = in.zero(t.T)
		}
		cell := new(Value)
		*cell = target
		return in.mkRValue(RType{T: types.NewPointer(t.T), Sym: t.Sym}, cell, rfValid)
	})
	reg("reflect.TypeOf", func(in *Interp, fr *frame, call *ssa.CallCommon, args []Value) Value {
		model(in)
		iv := args[0].(Iface)
		if iv.T == nil {
			return Iface{}
		}
		return in.mkRTypeIface(RType{T: iv.T})
	})
	reg("(reflect.Value).Kind", func(in *Interp, fr *frame, call *ssa.CallCommon, args []Value) Value {
		v := in.rv(args[0])
		if v.flags&rfValid == 0 {
			return in.Ctx.BV(64, 0)
		}
		return in.Ctx.BV(64, uint64(rkind(v.t.T)))
	})
	reg("(reflect.Value).IsValid", func(in *Interp, fr *frame, call *ssa.CallCommon, args []Value) Value {
		return in.Ctx.Bool(in.rv(args[0]).flags&rfValid != 0)
	})
	reg("(reflect.Value).Type", func(in *Interp, fr *frame, call *ssa.CallCommon, args []Value) Value {
		v := in.rv(args[0])
		if v.flags&rfValid == 0 {
			in.goPanic("reflect: call of reflect.Value.Type on zero Value")
		}
		return in.mkRTypeIface(v.t)
	})
	reg("(reflect.Value).Elem", func(in *Interp, fr *frame, call *ssa.CallCommon, args []Value) Value {
		v := in.rv(args[0])
		switch rkind(v.t.T) {
		case reflect.Ptr:
			if v.flags&rfValid == 0 {
				break
			}
			p, _ := (*v.cell).(*Value)
			if p == nil {
				return in.zero(call.Signature().Results().At(0).Type())
			}
			et := v.t.T.Underlying().(*types.Pointer).Elem()
			return in.mkRValue(RType{T: et, Sym: v.t.Sym}, p, rfValid|rfAddr|(v.flags&rfRO))
		case reflect.Interface:
			iv := (*v.cell).(Iface)
			if iv.T == nil {
				return in.zero(call.Signature().Results().At(0).Type())
			}
			c := new(Value)
			*c = copyVal(iv.V)
			return in.mkRValue(RType{T: iv.T}, c, rfValid|(v.flags&rfRO))
		}
		in.goPanic("reflect: call of reflect.Value.Elem on " + rkind(v.t.T).String() + " Value")
		return nil
	})
	reg("(reflect.Value).NumField", func(in *Interp, fr *frame, call *ssa.CallCommon, args []Value) Value {
		v := in.rv(args[0])
		if v.flags&rfValid == 0 || rkind(v.t.T) != reflect.Struct {
			in.goPanic("reflect: call of reflect.Value.NumField on " + rkind(v.t.T).String() + " Value")
		}
		return in.Ctx.BV(64, uint64(in.rnumField(v.t)))
	})
	rfield := func(in *Interp, v rval, i int) Value {
		if v.flags&rfValid == 0 || rkind(v.t.T) != reflect.Struct {
			in.goPanic("reflect: call of reflect.Value.Field on " + rkind(v.t.T).String() + " Value")
		}
		if i < 0 || i >= in.rnumField(v.t) {
			in.goPanic("reflect: Field index out of range")
		}
		ft, exported := in.rfieldType(v.t, i)
		fl := uint64(rfValid) | (v.flags & (rfAddr | rfRO))
		if !exported {
			if v.t.Sym == nil && in.rstruct(v.t).Field(i).Embedded() {
				fl |= rfEmbRO
			} else {
				fl |= rfRO
			}
		}
		return in.mkRValue(RType{T: ft}, &(*v.cell).(Struct)[i], fl)
	}
	reg("(reflect.Value).Field", func(in *Interp, fr *frame, call *ssa.CallCommon, args []Value) Value {
		return rfield(in, in.rv(args[0]), in.concInt(args[1], "field index"))
	})
	reg("(reflect.Value).FieldByName", func(in *Interp, fr *frame, call *ssa.CallCommon, args []Value) Value {
		v := in.rv(args[0])
		if v.flags&rfValid == 0 || rkind(v.t.T) != reflect.Struct {
			in.goPanic("reflect: call of reflect.Value.FieldByName on " + rkind(v.t.T).String() + " Value")
		}
		name := in.mustConcStr(args[1], "field name")
		i := in.rfieldByName(v.t, name)
		if i < 0 {
			// a field promoted from an embedded struct (one level)
			if e, j := in.rpromoted(v.t, name); e >= 0 {
				return rfield(in, in.rv(rfield(in, v, e)), j)
			}
			return in.zero(call.Signature().Results().At(0).Type())
		}
		return rfield(in, v, i)
	})
	reg("(reflect.Value).CanSet", func(in *Interp, fr *frame, call *ssa.CallCommon, args []Value) Value {
		v := in.rv(args[0])
		return in.Ctx.Bool(v.flags&rfAddr != 0 && v.flags&(rfRO|rfEmbRO) == 0)
	})
	mustSet := func(in *Interp, v rval, what string) {
		if v.flags&rfValid == 0 {
			in.goPanic("reflect: call of reflect.Value." + what + " on zero Value")
		}
		if v.flags&(rfRO|rfEmbRO) != 0 {
			in.goPanic("reflect: reflect.Value." + what + " using value obtained using unexported field")
		}
		if v.flags&rfAddr == 0 {
			in.goPanic("reflect: reflect.Value." + what + " using unaddressable value")
		}
	}
	reg("(reflect.Value).Set", func(in *Interp, fr *frame, call *ssa.CallCommon, args []Value) Value {
		v, x := in.rv(args[0]), in.rv(args[1])
		mustSet(in, v, "Set")
		if x.flags&rfValid == 0 {
			in.goPanic("reflect: call of reflect.Value.Set on zero Value")
		}
		if x.flags&(rfRO|rfEmbRO) != 0 {
			in.goPanic("reflect: reflect.Value.Set using value obtained using unexported field")
		}
		if _, isIface := v.t.T.Underlying().(*types.Interface); isIface {
			if !types.AssignableTo(x.t.T, v.t.T) {
				in.goPanic("reflect.Set: value of type " + typeString(x.t.T) + " is not assignable to type " + typeString(v.t.T))
			}
			if _, xi := x.t.T.Underlying().(*types.Interface); xi {
				in.store(v.cell, in.load(x.cell))
			} else {
				in.store(v.cell, Iface{T: x.t.T, V: in.load(x.cell)})
			}
			return nil
		}
		if !types.Identical(x.t.T, v.t.T) && !types.AssignableTo(x.t.T, v.t.T) {
			in.goPanic("reflect.Set: value of type " + typeString(x.t.T) + " is not assignable to type " + typeString(v.t.T))
		}
		in.store(v.cell, in.load(x.cell))
		return nil
	})
	reg("(reflect.Value).SetString", func(in *Interp, fr *frame, call *ssa.CallCommon, args []Value) Value {
		v := in.rv(args[0])
		mustSet(in, v, "SetString")
		if rkind(v.t.T) != reflect.String {
			in.goPanic("reflect: call of reflect.Value.SetString on " + rkind(v.t.T).String() + " Value")
		}
		in.store(v.cell, args[1])
		return nil
	})
	reg("(reflect.Value).Interface", func(in *Interp, fr *frame, call *ssa.CallCommon, args []Value) Value {
		v := in.rv(args[0])
		if v.flags&rfValid == 0 {
			in.goPanic("reflect: call of reflect.Value.Interface on zero Value")
		}
		if v.flags&(rfRO|rfEmbRO) != 0 {
			in.goPanic("reflect.Value.Interface: cannot return value obtained from unexported field or method")
		}
		if _, isIface := v.t.T.Underlying().(*types.Interface); isIface {
			return in.load(v.cell)
		}
		val := in.load(v.cell)
		if v.t.Sym != nil {
			if _, isPtr := v.t.T.Underlying().(*types.Pointer); !isPtr {
				return Iface{T: v.t.T, V: &SymStructVal{Desc: v.t.Sym, Fields: val.(Struct)}}
			}
			return Iface{T: v.t.T, V: &SymStructVal{Desc: v.t.Sym, Ptr: val.(*Value)}}
		}
		return Iface{T: v.t.T, V: val}
	})
	reg("(reflect.Value).String", func(in *Interp, fr *frame, call *ssa.CallCommon, args []Value) Value {
		v := in.rv(args[0])
		if v.flags&rfValid == 0 {
			return Str{S: "<invalid Value>"}
		}
		if rkind(v.t.T) == reflect.String {
			return in.load(v.cell)
		}
		return Str{S: "<" + typeString(v.t.T) + " Value>"}
	})
	reg("(reflect.Value).IsNil", func(in *Interp, fr *frame, call *ssa.CallCommon, args []Value) Value {
		v := in.rv(args[0])
		if v.flags&rfValid == 0 {
			in.goPanic("reflect: call of reflect.Value.IsNil on zero Value")
		}
		switch x := (*v.cell).(type) {
		case *Value:
			if rkind(v.t.T) == reflect.Ptr || rkind(v.t.T) == reflect.UnsafePointer {
				return in.Ctx.Bool(x == nil)
			}
		case Slice:
			return in.Ctx.Bool(x.Back == nil && x.JSON == nil)
		case *Map:
			return in.Ctx.Bool(x == nil)
		case Iface:
			return in.Ctx.Bool(x.T == nil)
		case *Closure:
			return in.Ctx.Bool(x == nil)
		case nil:
			return in.Ctx.T
		}
		if rkind(v.t.T) == reflect.Func {
			return in.Ctx.Bool(isNilFunc(*v.cell))
		}
		in.goPanic("reflect: call of reflect.Value.IsNil on " + rkind(v.t.T).String() + " Value")
		return nil
	})
	reg("(reflect.Value).Len", func(in *Interp, fr *frame, call *ssa.CallCommon, args []Value) Value {
		v := in.rv(args[0])
		switch x := (*v.cell).(type) {
		case Slice:
			return in.Ctx.BV(64, uint64(x.Len))
		case Str:
			return in.Ctx.BV(64, uint64(x.Len()))
		case *Map:
			return in.Ctx.BV(64, uint64(in.mapLen(x)))
		case Array:
			return in.Ctx.BV(64, uint64(len(x)))
		}
		in.goPanic("reflect: call of reflect.Value.Len on " + rkind(v.t.T).String() + " Value")
		return nil
	})

	// reflect.Type methods (dynamic type *reflect.rtype)
	rt := func(in *Interp, v Value) RType {
		t, ok := v.(RType)
		if !ok {
			in.unsupported("reflect.Type of unexpected representation %T", v)
		}
		return t
	}
	reg("(*reflect.rtype).Kind", func(in *Interp, fr *frame, call *ssa.CallCommon, args []Value) Value {
		return in.Ctx.BV(64, uint64(rkind(rt(in, args[0]).T)))
	})
	reg("(*reflect.rtype).String", func(in *Interp, fr *frame, call *ssa.CallCommon, args []Value) Value {
		return Str{S: rtypeString(rt(in, args[0]))}
	})
	reg("(*reflect.rtype).Name", func(in *Interp, fr *frame, call *ssa.CallCommon, args []Value) Value {
		t := rt(in, args[0])
		if t.Sym != nil {
			return Str{S: ""}
		}
		switch n := t.T.(type) {
		case *types.Named:
			return Str{S: n.Obj().Name()}
		case *types.Basic:
			return Str{S: typeString(n)}
		}
		return Str{S: ""}
	})
	reg("(*reflect.rtype).PkgPath", func(in *Interp, fr *frame, call *ssa.CallCommon, args []Value) Value {
		t := rt(in, args[0])
		if t.Sym != nil {
			return Str{S: ""} // an unnamed struct type
		}
		if n, ok := t.T.(*types.Named); ok && n.Obj().Pkg() != nil {
			return Str{S: n.Obj().Pkg().Path()}
		}
		return Str{S: ""}
	})
	reg("(reflect.StructTag).Lookup", func(in *Interp, fr *frame, call *ssa.CallCommon, args []Value) Value {
		tag := args[0].(Str)
		key := in.mustConcStr(args[1], "tag key")
		if tag.Opq != nil && tag.Opq.Tag != nil {
			f := tag.Opq.Tag
			switch key {
			case "api":
				if f.HasAPI {
					return Tuple{f.API, in.Ctx.T}
				}
			case "json":
				if f.HasJSON {
					return Tuple{f.JSON, in.Ctx.T}
				}
			}
			return Tuple{Str{}, in.Ctx.F}
		}
		if !tag.IsConc() {
			in.unsupported("StructTag.Lookup on a symbolic tag string")
		}
		v, ok := reflect.StructTag(tag.S).Lookup(key)
		return Tuple{Str{S: v}, in.Ctx.Bool(ok)}
	})
	reg("(*reflect.rtype).Elem", func(in *Interp, fr *frame, call *ssa.CallCommon, args []Value) Value {
		t := rt(in, args[0])
		switch u := t.T.Underlying().(type) {
		case *types.Pointer:
			return in.mkRTypeIface(RType{T: u.Elem(), Sym: t.Sym})
		case *types.Slice:
			return in.mkRTypeIface(RType{T: u.Elem()})
		case *types.Array:
			return in.mkRTypeIface(RType{T: u.Elem()})
		case *types.Map:
			return in.mkRTypeIface(RType{T: u.Elem()})
		}
		in.goPanic("reflect: Elem of invalid type " + typeString(t.T))
		return nil
	})
	reg("(*reflect.rtype).NumField", func(in *Interp, fr *frame, call *ssa.CallCommon, args []Value) Value {
		return in.Ctx.BV(64, uint64(in.rnumField(rt(in, args[0]))))
	})
	reg("(*reflect.rtype).Field", func(in *Interp, fr *frame, call *ssa.CallCommon, args []Value) Value {
		t := rt(in, args[0])
		i := in.concInt(args[1], "field index")
		if rkind(t.T) != reflect.Struct {
			in.goPanic("reflect: Field of non-struct type " + typeString(t.T))
		}
		if i < 0 || i >= in.rnumField(t) {
			in.goPanic("reflect: Field index out of bounds")
		}
		return in.mkStructField(t, i)
	})
	reg("(*reflect.rtype).FieldByName", func(in *Interp, fr *frame, call *ssa.CallCommon, args []Value) Value {
		t := rt(in, args[0])
		if rkind(t.T) != reflect.Struct {
			in.goPanic("reflect: FieldByName of non-struct type " + typeString(t.T))
		}
		name := in.mustConcStr(args[1], "field name")
		i := in.rfieldByName(t, name)
		if i < 0 {
			if e, j := in.rpromoted(t, name); e >= 0 {
				et, _ := in.rfieldType(t, e)
				return Tuple{in.mkStructField(RType{T: et}, j), in.Ctx.T}
			}
			return Tuple{in.zero(in.structFieldType()), in.Ctx.F}
		}
		return Tuple{in.mkStructField(t, i), in.Ctx.T}
	})
	reg("(reflect.StructTag).Get", func(in *Interp, fr *frame, call *ssa.CallCommon, args []Value) Value {
		tag := args[0].(Str)
		key := in.mustConcStr(args[1], "tag key")
		if tag.Opq != nil && tag.Opq.Tag != nil {
			f := tag.Opq.Tag
			switch key {
			case "api":
				if f.HasAPI {
					return f.API
				}
			case "json":
				if f.HasJSON {
					return f.JSON
				}
			}
			return Str{}
		}
		if !tag.IsConc() {
			in.unsupported("StructTag.Get on a symbolic tag string")
		}
		return Str{S: reflect.StructTag(tag.S).Get(key)}
	})
	reg("(reflect.Kind).String", func(in *Interp, fr *frame, call *ssa.CallCommon, args []Value) Value {
		t := term(args[0])
		if !t.IsConst() {
			in.unsupported("Kind.String of symbolic kind")
		}
		return Str{S: reflect.Kind(t.Val).String()}
	})
	_ = fmt.Sprint
	_ = strings.Split
}

// SymStructVal is a value of a symbolic struct type (C20): either the struct itself
// (Fields) or a pointer to it (Ptr).
type SymStructVal struct {
	Desc   *SymStruct
	Fields Struct
	Ptr    *Value
}

func (in *Interp) zeroSym(d *SymStruct) Value {
	s := make(Struct, len(d.Fields))
	for i, f := range d.Fields {
		s[i] = in.zero(f.T)
	}
	return s
}

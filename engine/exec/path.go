package exec

import (
	"fmt"
	"math/rand"
	"sort"
	"strings"
	"sync"
	"sync/atomic"
	"time"

	"vsym/solver"
	"vsym/sym"
)

// Event is something a harness recorded on a path (assertion, observation, ...).
type Event struct {
	Kind string    // assert | reach | confirm | observe | panic | known
	ID   string    // obligation id / label
	Cond *sym.Term // assert/confirm: the condition
	Obs  Value     // observe: the value
	Lit  string    // literal payload (panic message class)
}

// NondetRec remembers one nondeterministic input of the path so that models can be
// turned into input vectors.
type NondetRec struct {
	Name string
	Kind string // bool|int|uint|str|bytes|choice
	W    int
	Term *sym.Term   // scalar
	Str  []*sym.Term // str/bytes
	Idx  int         // choice
}

// Vector is a concrete input vector plus the outcomes predicted for it.
type Vector struct {
	Inputs   map[string]string `json:"inputs"`
	Expect   []EventOut        `json:"expect"`
	Purpose  string            `json:"purpose"` // path | violation | confirm
	ID       string            `json:"id,omitempty"`
	PathNo   int64             `json:"path"`
	Prefix   bool              `json:"prefix"` // native events must extend Expect (vs equal)
	MapOrder bool              `json:"map_order,omitempty"`
}

type EventOut struct {
	Kind string `json:"k"`
	ID   string `json:"id"`
	Val  string `json:"v"`
}

// WorkItem is a feasible (or not yet refuted) decision prefix.
type WorkItem struct {
	Prefix []int
	Aux    []uint64 // values chosen by Concretize along the prefix (replayed verbatim)
	Model  sym.Model // nil: feasibility unknown, must be checked after replay
}

// Explorer owns the work list and the aggregated results of a harness run.
type Explorer struct {
	mu       sync.Mutex
	work     []WorkItem
	inflight int
	cond     *sync.Cond

	MaxPaths   int64
	Deadline   time.Time
	RandomPick float64 // probability of taking a random frontier element instead of the newest
	Seed       int64
	rng        *rand.Rand
	Paths      int64 // completed paths (any ending)
	Decisions  int64
	Infeasible int64
	Abandoned  int64 // unknown feasibility
	Budget     bool  // path budget / deadline exhausted

	resMu       sync.Mutex
	Vectors     []*Vector
	Obligations map[string]*ObStat
	Unsupported map[string]int
	BoundHits   map[string]int
	PanicsTop   int64
	FuncsSeen   map[string]bool
	ModelsHit   map[string]bool
	MaxVectors  int
	pathSeen    int64
	vecPerID    map[string]int
	pathIdx     []int
	vrng        *rand.Rand
	queryNo     int64
	Repaired    int64
	SkippedQ    int64
	Instr       int64
}

type ObStat struct {
	Kind      string
	Paths     int64 // paths reaching it
	Proved    int64 // unsat (or constant true)
	Violated  int64
	Unknown   int64
	Confirmed int64
}

func NewExplorer() *Explorer {
	e := &Explorer{Obligations: map[string]*ObStat{}, Unsupported: map[string]int{}, BoundHits: map[string]int{},
		FuncsSeen: map[string]bool{}, ModelsHit: map[string]bool{}, MaxVectors: 4000}
	e.cond = sync.NewCond(&e.mu)
	e.work = []WorkItem{{Prefix: nil, Model: sym.Model{}}}
	return e
}

func (e *Explorer) push(w WorkItem) {
	e.mu.Lock()
	e.work = append(e.work, w)
	e.mu.Unlock()
	e.cond.Signal()
}

// next blocks until a work item is available or exploration is finished.
func (e *Explorer) next() (WorkItem, bool) {
	e.mu.Lock()
	defer e.mu.Unlock()
	for {
		if e.Budget {
			return WorkItem{}, false
		}
		if len(e.work) > 0 {
			if (e.MaxPaths > 0 && atomic.LoadInt64(&e.Paths)+int64(e.inflight) >= e.MaxPaths) || (!e.Deadline.IsZero() && time.Now().After(e.Deadline)) {
				e.Budget = true
				e.cond.Broadcast()
				return WorkItem{}, false
			}
			// depth-first by default; with RandomPick > 0 some picks take a random frontier
			// element instead, so that a run cut short by its budget has sampled the whole
			// decision tree rather than one corner of it (bounded frontier: memory)
			if e.RandomPick > 0 && len(e.work) > 1 && len(e.work) < 1_000_000 {
				if e.rng == nil {
					e.rng = rand.New(rand.NewSource(e.Seed + 1))
				}
				if e.rng.Float64() < e.RandomPick {
					i := e.rng.Intn(len(e.work))
					e.work[i], e.work[len(e.work)-1] = e.work[len(e.work)-1], e.work[i]
				}
			}
			w := e.work[len(e.work)-1]
			e.work = e.work[:len(e.work)-1]
			e.inflight++
			return w, true
		}
		if e.inflight == 0 {
			e.cond.Broadcast()
			return WorkItem{}, false
		}
		e.cond.Wait()
	}
}

func (e *Explorer) done() {
	e.mu.Lock()
	e.inflight--
	e.mu.Unlock()
	e.cond.Broadcast()
}

func (e *Explorer) Remaining() int {
	e.mu.Lock()
	defer e.mu.Unlock()
	return len(e.work)
}

func (e *Explorer) ob(id, kind string) *ObStat {
	o := e.Obligations[id]
	if o == nil {
		o = &ObStat{Kind: kind}
		e.Obligations[id] = o
	}
	return o
}

// Path is the state of one symbolic execution (one decision sequence).
type Path struct {
	Ex      *Explorer
	Ctx     *sym.Ctx
	prefix  []int
	pos     int
	trace   []int
	pc      []*sym.Term
	model   sym.Model
	memo    map[*sym.Term]uint64
	sv      *solver.Proc
	pr      *sym.Printer
	Events  []Event
	Nondets []*NondetRec
	ndNames map[string]bool
	No      int64
	needChk bool // prefix came without model
	QTimeout time.Duration
	usedMapOrder bool
	XCheckEvery int
	NoRepair bool
	known map[*sym.Term]bool
	auxPrefix []uint64
	tb map[*sym.Term]ival
	bmemo map[*sym.Term]ival
	auxTrace []uint64
	SkippedQ int64
}

func (p *Path) eval(t *sym.Term) uint64 {
	return sym.Eval(t, p.model, p.memo)
}

func (p *Path) setModel(m sym.Model) {
	p.model = m
	p.memo = map[*sym.Term]uint64{}
}

// learn records the literals implied by an asserted term.
func (p *Path) learn(t *sym.Term, val bool) {
	if p.known == nil {
		p.known = map[*sym.Term]bool{}
	}
	if _, ok := p.known[t]; ok {
		return
	}
	p.known[t] = val
	p.learnBound(t, val)
	switch t.Op {
	case sym.OpNot:
		p.learn(t.Args[0], !val)
	case sym.OpAnd:
		if val {
			p.learn(t.Args[0], true)
			p.learn(t.Args[1], true)
		}
	case sym.OpOr:
		if !val {
			p.learn(t.Args[0], false)
			p.learn(t.Args[1], false)
		}
	}
}

// simp rewrites t under the literals known from the path condition (sound: only
// replaces sub-terms whose value is implied by pc).
func (p *Path) simp(t *sym.Term) *sym.Term {
	if t.IsConst() {
		return t
	}
	if v, ok := p.known[t]; ok {
		return p.Ctx.Bool(v)
	}
	if v, ok := p.decideCmp(t); ok {
		return p.Ctx.Bool(v)
	}
	switch t.Op {
	case sym.OpNot:
		a := p.simp(t.Args[0])
		if a != t.Args[0] {
			return p.Ctx.Not(a)
		}
	case sym.OpAnd:
		a, b := p.simp(t.Args[0]), p.simp(t.Args[1])
		if a != t.Args[0] || b != t.Args[1] {
			return p.Ctx.And(a, b)
		}
	case sym.OpOr:
		a, b := p.simp(t.Args[0]), p.simp(t.Args[1])
		if a != t.Args[0] || b != t.Args[1] {
			return p.Ctx.Or(a, b)
		}
	}
	return t
}

func (p *Path) assertPC(t *sym.Term) {
	if t.IsTrue() {
		return
	}
	p.learn(t, true)
	p.pc = append(p.pc, t)
	ref := p.pr.Ref(t)
	p.sv.Send(p.pr.Flush())
	p.sv.Assert(ref)
}

// query checks pc ∧ extra. On Sat it returns a model over all variables created so far.
// collectVars returns the variables occurring in t (bounded walk).
func collectVars(t *sym.Term, out map[*sym.Term]bool, budget *int) {
	if *budget <= 0 || t.IsConst() {
		return
	}
	*budget--
	if t.Op == sym.OpVar {
		out[t] = true
		return
	}
	for _, a := range t.Args {
		collectVars(a, out, budget)
	}
}

// tryRepair looks for a model of pc ∧ extra by changing one variable of the current model
// (local search). A model found this way is checked against every conjunct of the path
// condition, so the answer "sat" is exact; failure means nothing (the solver is asked).
func (p *Path) tryRepair(extra *sym.Term) (sym.Model, bool) {
	vars := map[*sym.Term]bool{}
	budget := 40
	collectVars(extra, vars, &budget)
	if len(vars) == 0 || len(vars) > 6 || budget <= 0 {
		return nil, false
	}
	// candidate values: constants and sub-term values occurring in extra, +-1, 0, max
	cands := map[uint64]bool{0: true, 1: true}
	var walk func(t *sym.Term, d int)
	walk = func(t *sym.Term, d int) {
		if d > 6 {
			return
		}
		if t.W > 0 {
			v := p.eval(t)
			cands[v], cands[v+1], cands[v-1] = true, true, true
		}
		for _, a := range t.Args {
			walk(a, d+1)
		}
	}
	walk(extra, 0)
	trials := 0
	for v := range vars {
		for c := range cands {
			trials++
			if trials > 48 {
				return nil, false
			}
			val := c
			if v.W == 0 {
				val = c & 1
			} else if v.W < 64 {
				val = c & ((uint64(1) << uint(v.W)) - 1)
			}
			if p.model[v.Name] == val {
				continue
			}
			m := make(sym.Model, len(p.model)+1)
			for k, x := range p.model {
				m[k] = x
			}
			if val == 0 {
				delete(m, v.Name)
			} else {
				m[v.Name] = val
			}
			memo := map[*sym.Term]uint64{}
			if sym.Eval(extra, m, memo) != 1 {
				continue
			}
			ok := true
			for _, t := range p.pc {
				if sym.Eval(t, m, memo) != 1 {
					ok = false
					break
				}
			}
			if ok {
				return m, true
			}
		}
	}
	return nil, false
}

func (p *Path) query(extra *sym.Term, wantModel bool) (solver.Result, sym.Model) {
	if wantModel && !p.NoRepair {
		if m, ok := p.tryRepair(extra); ok {
			atomic.AddInt64(&p.Ex.Repaired, 1)
			return solver.Sat, m
		}
	}
	ref := p.pr.Ref(extra)
	p.sv.Send(p.pr.Flush())
	p.sv.Push()
	p.sv.Assert(ref)
	r := p.sv.Check()
	var m sym.Model
	if r == solver.Sat && wantModel {
		m = p.readModel()
		if m == nil {
			r = solver.Unknown
		}
	}
	if r != solver.Unknown && p.XCheckEvery > 0 {
		// thorough tier: a sample of z3's answers is re-decided by cvc5
		if n := atomic.AddInt64(&p.Ex.queryNo, 1); n%int64(p.XCheckEvery) == 0 {
			x := solver.CrossCheck(p.sv.Script.String(), 30*time.Second)
			if x != solver.Unknown && x != r {
				atomic.AddInt64(&solver.Global.Disagreements, 1)
				r = solver.Unknown // a disagreement makes the query inconclusive
				m = nil
			}
		}
	}
	if r == solver.Unknown {
		// portfolio: standalone script on the other back ends
		script := p.sv.Script.String()
		pr, _ := solver.PortfolioCheck(script, p.QTimeout)
		if pr == solver.Unsat {
			r = solver.Unsat
		} else if pr == solver.Sat && !wantModel {
			r = solver.Sat
		}
		// a portfolio "sat" without model cannot be followed; stays Unknown when a model is needed
	}
	p.sv.Pop()
	return r, m
}

func (p *Path) readModel() sym.Model {
	vars := p.Ctx.Vars
	var syms []string
	var names []string
	for _, v := range vars {
		if p.pr.Defined[v.ID] {
			syms = append(syms, sym.SMTName(v.Name))
			names = append(names, v.Name)
		}
	}
	vals, err := p.sv.Values(syms)
	if err != nil {
		return nil
	}
	m := sym.Model{}
	for i, n := range names {
		if vals[i] != 0 {
			m[n] = vals[i]
		}
	}
	return m
}

// afterPrefix is called when the forced prefix has been consumed.
func (p *Path) afterPrefix() {
	if !p.needChk {
		return
	}
	p.needChk = false
	r, m := p.query(p.Ctx.T, true)
	switch r {
	case solver.Sat:
		p.setModel(m)
	case solver.Unsat:
		atomic.AddInt64(&p.Ex.Infeasible, 1)
		panic(&PathEnd{"infeasible"})
	default:
		atomic.AddInt64(&p.Ex.Abandoned, 1)
		panic(&PathEnd{"unknown-feasibility"})
	}
}

// Choose is the general decision point: conds[i] is the condition of alternative i
// (nil = unconditional free choice). Alternatives must be mutually exclusive and
// exhaustive under the path condition. Returns the index taken on this path.
func (p *Path) Choose(n int, conds []*sym.Term) int {
	atomic.AddInt64(&p.Ex.Decisions, 1)
	if p.pos < len(p.prefix) {
		d := p.prefix[p.pos]
		p.pos++
		p.trace = append(p.trace, d)
		if conds != nil {
			p.assertPC(conds[d])
		}
		if p.pos == len(p.prefix) {
			p.afterPrefix()
		}
		return d
	}
	chosen := 0
	if conds != nil {
		chosen = -1
		for i := 0; i < n; i++ {
			if p.eval(conds[i]) == 1 {
				chosen = i
				break
			}
		}
		if chosen < 0 {
			panic(&Unsupported{"decision: no alternative holds under the current model (alternatives not exhaustive)"})
		}
	}
	for i := 0; i < n; i++ {
		if i == chosen {
			continue
		}
		np := append(append([]int{}, p.trace...), i)
		if conds == nil {
			p.Ex.push(WorkItem{Prefix: np, Model: p.model, Aux: append([]uint64{}, p.auxTrace...)})
			continue
		}
		ci := p.simp(conds[i])
		if ci.IsFalse() {
			atomic.AddInt64(&p.Ex.SkippedQ, 1)
			continue
		}
		r, m := p.query(ci, true)
		switch r {
		case solver.Sat:
			p.Ex.push(WorkItem{Prefix: np, Model: m, Aux: append([]uint64{}, p.auxTrace...)})
		case solver.Unknown:
			p.Ex.push(WorkItem{Prefix: np, Model: nil, Aux: append([]uint64{}, p.auxTrace...)})
		}
	}
	p.trace = append(p.trace, chosen)
	if conds != nil {
		p.assertPC(conds[chosen])
	}
	return chosen
}

// Branch decides a boolean.
func (p *Path) Branch(c *sym.Term) bool {
	if c.IsConst() {
		return c.Val == 1
	}
	return p.Choose(2, []*sym.Term{c, p.Ctx.Not(c)}) == 0
}

// Concretize forks over the feasible values of t (at most limit values per path chain).
func (p *Path) Concretize(t *sym.Term, what string) uint64 {
	if t.IsConst() {
		return t.Val
	}
	for i := 0; i < 16; i++ {
		var v uint64
		if len(p.auxTrace) < len(p.auxPrefix) {
			v = p.auxPrefix[len(p.auxTrace)]
		} else {
			v = p.eval(t)
		}
		p.auxTrace = append(p.auxTrace, v)
		if p.Branch(p.Ctx.Eq(t, p.Ctx.BV(t.W, v))) {
			return v
		}
	}
	panic(&Unsupported{"unbounded symbolic " + what})
}

func (p *Path) Assume(c *sym.Term) {
	if c.IsTrue() {
		return
	}
	if p.pos < len(p.prefix) {
		// still replaying: the stored model satisfies every assumption of the prefix
		p.assertPC(c)
		return
	}
	if p.eval(c) == 1 {
		p.assertPC(c)
		return
	}
	if c.IsFalse() {
		panic(&PathEnd{"assume-false"})
	}
	r, m := p.query(c, true)
	switch r {
	case solver.Sat:
		p.setModel(m)
		p.assertPC(c)
	case solver.Unsat:
		panic(&PathEnd{"assume-infeasible"})
	default:
		atomic.AddInt64(&p.Ex.Abandoned, 1)
		panic(&PathEnd{"assume-unknown"})
	}
}

// Assert checks an obligation on this path.
func (p *Path) Assert(c *sym.Term, id string) {
	p.Events = append(p.Events, Event{Kind: "assert", ID: id, Cond: c})
	replaying := p.pos < len(p.prefix)
	if replaying {
		// already discharged by the path that created this prefix
		return
	}
	ex := p.Ex
	neg := p.Ctx.Not(c)
	var res solver.Result
	var m sym.Model
	if p.simp(c).IsTrue() {
		res = solver.Unsat
	} else if p.eval(neg) == 1 {
		res, m = solver.Sat, p.model
	} else {
		res, m = p.query(neg, true)
	}
	ex.resMu.Lock()
	o := ex.ob(id, "assert")
	o.Paths++
	switch res {
	case solver.Unsat:
		o.Proved++
	case solver.Sat:
		o.Violated++
	default:
		o.Unknown++
	}
	ex.resMu.Unlock()
	if res == solver.Sat {
		p.emitVector(m, "violation", id, true)
		// the path continues without assuming the assertion, so that later obligations
		// are still checked on the inputs that violate this one (no masking)
		return
	}
	if res == solver.Unsat {
		p.assertPC(c) // implied by pc: recorded to help syntactic pruning
	}
}

// Confirm is a reachability query for a known finding: is c satisfiable here?
func (p *Path) Confirm(c *sym.Term, id string) {
	p.Events = append(p.Events, Event{Kind: "confirm", ID: id, Cond: c})
	if p.pos < len(p.prefix) {
		return
	}
	ex := p.Ex
	var res solver.Result
	var m sym.Model
	if c.IsFalse() {
		res = solver.Unsat
	} else if p.eval(c) == 1 {
		res, m = solver.Sat, p.model
	} else {
		res, m = p.query(c, true)
	}
	ex.resMu.Lock()
	o := ex.ob(id, "confirm")
	o.Paths++
	if res == solver.Sat {
		o.Confirmed++
	} else if res == solver.Unknown {
		o.Unknown++
	}
	first := res == solver.Sat && o.Confirmed <= 3
	ex.resMu.Unlock()
	if first {
		p.emitVector(m, "confirm", id, true)
	}
}

func (p *Path) Reach(label string) {
	p.Events = append(p.Events, Event{Kind: "reach", ID: label})
	if p.pos < len(p.prefix) {
		return
	}
	p.Ex.resMu.Lock()
	o := p.Ex.ob(label, "reach")
	o.Paths++
	p.Ex.resMu.Unlock()
}

// emitVector turns a model into an input vector with predicted events.
func (p *Path) emitVector(m sym.Model, purpose, id string, prefix bool) {
	ex := p.Ex
	memo := map[*sym.Term]uint64{}
	ev := func(t *sym.Term) uint64 { return sym.Eval(t, m, memo) }
	v := &Vector{Inputs: map[string]string{}, Purpose: purpose, ID: id, PathNo: p.No, Prefix: prefix, MapOrder: p.usedMapOrder}
	for _, nd := range p.Nondets {
		switch nd.Kind {
		case "str", "bytes":
			var sb strings.Builder
			for _, b := range nd.Str {
				fmt.Fprintf(&sb, "%02x", ev(b))
			}
			v.Inputs[nd.Name] = "x" + sb.String()
		case "choice":
			v.Inputs[nd.Name] = fmt.Sprint(nd.Idx)
		default:
			v.Inputs[nd.Name] = fmt.Sprint(ev(nd.Term))
		}
	}
	for _, e := range p.Events {
		switch e.Kind {
		case "assert", "confirm":
			v.Expect = append(v.Expect, EventOut{e.Kind, e.ID, fmt.Sprint(ev(e.Cond) == 1)})
		case "observe":
			v.Expect = append(v.Expect, EventOut{e.Kind, e.ID, canonValue(e.Obs, ev)})
		default:
			v.Expect = append(v.Expect, EventOut{e.Kind, e.ID, e.Lit})
		}
	}
	ex.resMu.Lock()
	if purpose != "path" {
		// at most 64 vectors per obligation and purpose are kept for native replay (three are
		// reported); the counts in the obligation table are unaffected
		if ex.vecPerID == nil {
			ex.vecPerID = map[string]int{}
		}
		ex.vecPerID[purpose+"/"+id]++
		if ex.vecPerID[purpose+"/"+id] <= 64 {
			ex.Vectors = append(ex.Vectors, v)
		}
	} else {
		// the path vectors replayed natively are a uniform sample of all paths (reservoir),
		// not the first MaxVectors in exploration order
		ex.pathSeen++
		if len(ex.pathIdx) < ex.MaxVectors {
			ex.pathIdx = append(ex.pathIdx, len(ex.Vectors))
			ex.Vectors = append(ex.Vectors, v)
		} else {
			if ex.vrng == nil {
				ex.vrng = rand.New(rand.NewSource(ex.Seed + 7))
			}
			if j := ex.vrng.Int63n(ex.pathSeen); j < int64(ex.MaxVectors) {
				ex.Vectors[ex.pathIdx[j]] = v
			}
		}
	}
	ex.resMu.Unlock()
}

// Finish is called when the harness returned normally (or ended by a panic event).
func (p *Path) Finish() {
	if p.pos < len(p.prefix) {
		// the prefix was longer than the path: happens only if execution is not
		// deterministic w.r.t. decisions; count as abandoned
		atomic.AddInt64(&p.Ex.Abandoned, 1)
		return
	}
	p.emitVector(p.model, "path", "", false)
}

func sortedKeys(m map[string]int) []string {
	var ks []string
	for k := range m {
		ks = append(ks, k)
	}
	sort.Strings(ks)
	return ks
}

package exec

import (
	"fmt"
	"os"
	"runtime/debug"
	"sync"
	"sync/atomic"
	"time"

	"golang.org/x/tools/go/ssa"

	"vsym/solver"
	"vsym/sym"
)

// RunConfig controls one harness exploration.
type RunConfig struct {
	Workers    int
	MaxPaths   int64
	Deadline   time.Duration
	SolverMs   int
	PortfolioS int
	Verbose    bool
	Pool       chan *solver.Proc
	SolverKind string
	XCheckEvery int
	RandomPick  float64
	Seed        int64
}

// Run explores all paths of harness function fn.
func Run(p *Program, fn *ssa.Function, prop string, cfg RunConfig) *Explorer {
	ex := NewExplorer()
	ex.MaxPaths = cfg.MaxPaths
	ex.RandomPick, ex.Seed = cfg.RandomPick, cfg.Seed
	if cfg.Deadline > 0 {
		ex.Deadline = time.Now().Add(cfg.Deadline)
	}
	var wg sync.WaitGroup
	for w := 0; w < cfg.Workers; w++ {
		wg.Add(1)
		go func() {
			defer wg.Done()
			var sv *solver.Proc
			select {
			case sv = <-cfg.Pool:
				sv.TimeoutMs = cfg.SolverMs
			default:
				var err error
				kind := cfg.SolverKind
				if kind == "" {
					kind = "z3"
				}
				sv, err = solver.Start(kind, cfg.SolverMs)
				if err != nil {
					fmt.Fprintln(os.Stderr, "cannot start solver:", err)
					return
				}
			}
			defer func() {
				if cfg.Pool != nil && sv.Alive() {
					select {
					case cfg.Pool <- sv:
						return
					default:
					}
				}
				sv.Close()
			}()
			for {
				item, ok := ex.next()
				if !ok {
					return
				}
				runPath(p, fn, prop, ex, sv, item, cfg)
				ex.done()
			}
		}()
	}
	wg.Wait()
	return ex
}

func runPath(p *Program, fn *ssa.Function, prop string, ex *Explorer, sv *solver.Proc, item WorkItem, cfg RunConfig) {
	sv.Reset()
	path := &Path{Ex: ex, Ctx: sym.NewCtx(), prefix: item.Prefix, auxPrefix: item.Aux, sv: sv, pr: sym.NewPrinter(),
		QTimeout: time.Duration(cfg.PortfolioS) * time.Second, XCheckEvery: cfg.XCheckEvery}
	path.No = atomic.AddInt64(&ex.Paths, 1)
	if item.Model == nil {
		path.needChk = true
		path.setModel(sym.Model{})
	} else {
		path.setModel(item.Model)
	}
	in := NewInterp(p, path)
	in.curProp = prop
	defer in.countInstr()
	defer func() {
		r := recover()
		if r == nil {
			path.Finish()
			return
		}
		switch r := r.(type) {
		case *PathEnd:
			_ = r
		case *ProgPanic:
			// a run-time panic of the program reached the harness entry: violation of <prop>.no-panic
			if path.pos < len(path.prefix) {
				atomic.AddInt64(&ex.Abandoned, 1)
				return
			}
			id := prop + ".no-panic"
			path.Events = append(path.Events, Event{Kind: "panic", ID: id, Lit: "panic"})
			ex.resMu.Lock()
			o := ex.ob(id, "assert")
			o.Paths++
			o.Violated++
			ex.PanicsTop++
			ex.resMu.Unlock()
			path.emitVector(path.model, "violation", id, true)
			if cfg.Verbose {
				fmt.Fprintf(os.Stderr, "path %d: program panic: %s %v\n", path.No, r.Msg, describe(r.Val))
			}
		case *SharedWrite:
			id := prop + ".no-shared-write"
			path.Events = append(path.Events, Event{Kind: "panic", ID: id, Lit: "shared-write " + r.Where})
			ex.resMu.Lock()
			o := ex.ob(id, "assert")
			o.Paths++
			o.Violated++
			ex.resMu.Unlock()
			path.emitVector(path.model, "violation", id, true)
		case *Unsupported:
			ex.resMu.Lock()
			ex.Unsupported[r.Msg+" at "+in.Where()]++
			ex.resMu.Unlock()
			if cfg.Verbose {
				fmt.Fprintf(os.Stderr, "path %d: unsupported: %s\n", path.No, r.Msg)
			}
		case *BoundHit:
			ex.resMu.Lock()
			ex.BoundHits[r.Msg]++
			ex.resMu.Unlock()
		default:
			ex.resMu.Lock()
			ex.Unsupported[fmt.Sprintf("engine error: %v at %s", r, in.Where())]++
			ex.resMu.Unlock()
			if cfg.Verbose {
				fmt.Fprintf(os.Stderr, "path %d: engine error: %v\n%s\n", path.No, r, debug.Stack())
			}
		}
	}()
	in.callSSA(fn, nil, nil)
}

func describe(v Value) string {
	switch v := v.(type) {
	case Iface:
		if s, ok := v.V.(Str); ok && s.IsConc() {
			return s.S
		}
		if v.T != nil {
			return typeString(v.T)
		}
	case Str:
		if v.IsConc() {
			return v.S
		}
	}
	return ""
}

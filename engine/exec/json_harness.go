package exec

import (
	"go/types"

	"golang.org/x/tools/go/ssa"

	"vsym/sym"
)

// Harness-side constructors and accessors for abstract JSON documents (natively: real bytes
// and the real encoding/json).

func (in *Interp) jsonArg(v Value) *JNode {
	s := v.(Slice)
	if s.JSON == nil && s.Back == nil {
		in.unsupported("JSON accessor on a nil byte slice")
	}
	return in.jsonOfBytes(s)
}

func jdoc(n *JNode) Value { return Slice{JSON: n} }

// jsonLookup returns the value of the last member named key (encoding/json semantics).
func (in *Interp) jsonLookup(n *JNode, key Str) *JNode {
	if n.Kind != JObject {
		return nil
	}
	for i := len(n.Keys) - 1; i >= 0; i-- {
		if in.Path.Branch(in.strEq(n.Keys[i], key)) {
			return n.Vals[i]
		}
	}
	return nil
}

func init() {
	reg := func(name string, f Intrinsic) { intrinsics[hpkg+name] = f }
	reg("vJNull", func(in *Interp, fr *frame, call *ssa.CallCommon, args []Value) Value {
		return jdoc(&JNode{Kind: JNull})
	})
	reg("vJBool", func(in *Interp, fr *frame, call *ssa.CallCommon, args []Value) Value {
		return jdoc(&JNode{Kind: JBool, B: term(args[0])})
	})
	reg("vJNumText", func(in *Interp, fr *frame, call *ssa.CallCommon, args []Value) Value {
		return jdoc(&JNode{Kind: JNumText, Text: args[0].(Str)})
	})
	reg("vJInt", func(in *Interp, fr *frame, call *ssa.CallCommon, args []Value) Value {
		return jdoc(&JNode{Kind: JNumVal, Val: term(args[0]), Signed: true})
	})
	reg("vJUint", func(in *Interp, fr *frame, call *ssa.CallCommon, args []Value) Value {
		return jdoc(&JNode{Kind: JNumVal, Val: term(args[0]), Signed: false})
	})
	reg("vJStr", func(in *Interp, fr *frame, call *ssa.CallCommon, args []Value) Value {
		return jdoc(&JNode{Kind: JString, S: args[0].(Str)})
	})
	reg("vJTime", func(in *Interp, fr *frame, call *ssa.CallCommon, args []Value) Value {
		return jdoc(&JNode{Kind: JString, Flavor: flTime, Time: copyVal(args[0])})
	})
	reg("vJBytes", func(in *Interp, fr *frame, call *ssa.CallCommon, args []Value) Value {
		s := args[0].(Slice)
		back := make([]Value, s.Len)
		copy(back, s.Back[:s.Len])
		return jdoc(&JNode{Kind: JString, Flavor: flBytes, Bytes: Slice{Back: back, Len: s.Len}})
	})
	reg("vJArr", func(in *Interp, fr *frame, call *ssa.CallCommon, args []Value) Value {
		s := args[0].(Slice)
		n := &JNode{Kind: JArray}
		for i := 0; i < s.Len; i++ {
			n.Elems = append(n.Elems, in.jsonArg(s.Back[i]))
		}
		return jdoc(n)
	})
	reg("vJObj", func(in *Interp, fr *frame, call *ssa.CallCommon, args []Value) Value {
		ks, vs := args[0].(Slice), args[1].(Slice)
		if ks.Len != vs.Len {
			in.unsupported("vJObj: keys and values differ in length")
		}
		n := &JNode{Kind: JObject}
		for i := 0; i < ks.Len; i++ {
			n.Keys = append(n.Keys, ks.Back[i].(Str))
			n.Vals = append(n.Vals, in.jsonArg(vs.Back[i]))
		}
		return jdoc(n)
	})
	reg("vJInvalid", func(in *Interp, fr *frame, call *ssa.CallCommon, args []Value) Value {
		return jdoc(&JNode{Kind: JInvalid})
	})
	reg("vJText", func(in *Interp, fr *frame, call *ssa.CallCommon, args []Value) Value {
		return in.jsonTextToString(in.jsonArg(args[0]))
	})
	reg("vJKind", func(in *Interp, fr *frame, call *ssa.CallCommon, args []Value) Value {
		n := in.jsonArg(args[0])
		k := 0
		switch n.Kind {
		case JNull:
			k = 0
		case JBool:
			k = 1
		case JNumText, JNumVal:
			k = 2
		case JString:
			k = 3
		case JArray:
			k = 4
		case JObject:
			k = 5
		default:
			k = 6
		}
		return in.Ctx.BV(64, uint64(k))
	})
	reg("vJLen", func(in *Interp, fr *frame, call *ssa.CallCommon, args []Value) Value {
		n := in.jsonArg(args[0])
		switch n.Kind {
		case JArray:
			return in.Ctx.BV(64, uint64(len(n.Elems)))
		case JObject:
			return in.Ctx.BV(64, uint64(len(n.Keys)))
		}
		return in.Ctx.BV(64, 0)
	})
	reg("vJIdx", func(in *Interp, fr *frame, call *ssa.CallCommon, args []Value) Value {
		n := in.jsonArg(args[0])
		i := in.concInt(args[1], "index")
		if n.Kind != JArray || i < 0 || i >= len(n.Elems) {
			return jdoc(&JNode{Kind: JNull})
		}
		return jdoc(n.Elems[i])
	})
	reg("vJHas", func(in *Interp, fr *frame, call *ssa.CallCommon, args []Value) Value {
		return in.Ctx.Bool(in.jsonLookup(in.jsonArg(args[0]), args[1].(Str)) != nil)
	})
	reg("vJGet", func(in *Interp, fr *frame, call *ssa.CallCommon, args []Value) Value {
		v := in.jsonLookup(in.jsonArg(args[0]), args[1].(Str))
		if v == nil {
			return jdoc(&JNode{Kind: JNull})
		}
		return jdoc(v)
	})
	reg("vJStrVal", func(in *Interp, fr *frame, call *ssa.CallCommon, args []Value) Value {
		n := in.jsonArg(args[0])
		if n.Kind != JString {
			return Str{}
		}
		if n.Flavor != flPlain {
			return Str{Opq: &Opaque{What: "text of a time/bytes JSON string", NotNilWord: true}}
		}
		return n.S
	})
	reg("vJBoolVal", func(in *Interp, fr *frame, call *ssa.CallCommon, args []Value) Value {
		n := in.jsonArg(args[0])
		if n.Kind != JBool {
			return in.Ctx.F
		}
		return n.B
	})
	reg("vJIsInt", func(in *Interp, fr *frame, call *ssa.CallCommon, args []Value) Value {
		n := in.jsonArg(args[0])
		return in.Ctx.Bool(n.Kind == JNumVal)
	})
	reg("vJIntVal", func(in *Interp, fr *frame, call *ssa.CallCommon, args []Value) Value {
		n := in.jsonArg(args[0])
		if n.Kind != JNumVal {
			return in.Ctx.BV(64, 0)
		}
		if n.Signed {
			return in.Ctx.SExt(n.Val, 64)
		}
		return in.Ctx.ZExt(n.Val, 64)
	})
	reg("vJIsNeg", func(in *Interp, fr *frame, call *ssa.CallCommon, args []Value) Value {
		n := in.jsonArg(args[0])
		if n.Kind != JNumVal || !n.Signed {
			return in.Ctx.F
		}
		return in.Ctx.Cmp(sym.OpSlt, n.Val, in.Ctx.BV(n.Val.W, 0))
	})
	reg("vJTimeVal", func(in *Interp, fr *frame, call *ssa.CallCommon, args []Value) Value {
		n := in.jsonArg(args[0])
		if n.Kind == JString && n.Flavor == flTime {
			return copyVal(n.Time)
		}
		return Struct{in.Ctx.BV(64, 0), in.Ctx.BV(64, 0), (*Value)(nil)}
	})
	reg("vJIsTime", func(in *Interp, fr *frame, call *ssa.CallCommon, args []Value) Value {
		n := in.jsonArg(args[0])
		return in.Ctx.Bool(n.Kind == JString && n.Flavor == flTime)
	})
	reg("vJBytesVal", func(in *Interp, fr *frame, call *ssa.CallCommon, args []Value) Value {
		n := in.jsonArg(args[0])
		if n.Kind == JString && n.Flavor == flBytes {
			back := make([]Value, n.Bytes.Len)
			copy(back, n.Bytes.Back[:n.Bytes.Len])
			return Slice{Back: back, Len: len(back)}
		}
		return Slice{}
	})
	reg("vJIsBytes", func(in *Interp, fr *frame, call *ssa.CallCommon, args []Value) Value {
		n := in.jsonArg(args[0])
		return in.Ctx.Bool(n.Kind == JString && n.Flavor == flBytes)
	})
	reg("vJEqual", func(in *Interp, fr *frame, call *ssa.CallCommon, args []Value) Value {
		return in.jsonEqual(in.jsonArg(args[0]), in.jsonArg(args[1]))
	})
	_ = types.Typ
}

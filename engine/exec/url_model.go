package exec

import (
	"go/types"

	"golang.org/x/tools/go/ssa"
)

// net/url boundary: a *url.URL handed to the library is built by the harness from a path
// and a url.Values map (natively: RawQuery = values.Encode(), which Query() parses back to
// exactly that map). (*url.URL).Query returns a copy of the registered map.

func (in *Interp) urlType() *types.Named {
	pkg := in.P.Prog.ImportedPackage("net/url")
	if pkg == nil {
		in.unsupported("package net/url not loaded")
	}
	return pkg.Type("URL").Type().(*types.Named)
}

func fieldIndex(st *types.Struct, name string) int {
	for i := 0; i < st.NumFields(); i++ {
		if st.Field(i).Name() == name {
			return i
		}
	}
	return -1
}

func init() {
	intrinsics[hpkg+"vURL"] = func(in *Interp, fr *frame, call *ssa.CallCommon, args []Value) Value {
		ut := in.urlType()
		cell := new(Value)
		*cell = in.zero(ut)
		st := ut.Underlying().(*types.Struct)
		(*cell).(Struct)[fieldIndex(st, "Path")] = args[0]
		if in.urlQueries == nil {
			in.urlQueries = map[*Value]*Map{}
		}
		m, _ := args[1].(*Map)
		in.urlQueries[cell] = m
		return cell
	}
	intrinsics["(*net/url.URL).Query"] = func(in *Interp, fr *frame, call *ssa.CallCommon, args []Value) Value {
		p := args[0].(*Value)
		src, ok := in.urlQueries[p]
		if !ok {
			return fallThrough{} // a URL produced by url.Parse: the real ParseQuery runs
		}
		in.noteModel("(*url.URL).Query returns the harness-supplied url.Values (natively RawQuery = Values.Encode())")
		in.mapSeq++
		out := &Map{KeyT: types.Typ[types.String], ValT: types.NewSlice(types.Typ[types.String]), ID: in.mapSeq}
		if src != nil {
			out.KeyT, out.ValT = src.KeyT, src.ValT
			for _, e := range src.Entries {
				s := e.V.(Slice)
				back := make([]Value, s.Len)
				copy(back, s.Back[:s.Len])
				out.Entries = append(out.Entries, &MapEntry{K: e.K, V: Slice{Back: back, Len: s.Len}})
			}
		}
		return out
	}
}

package exec

import (
	"go/types"

	"golang.org/x/tools/go/ssa"
)

// net/url boundary: a *url.URL handed to the library is built by the harness from a path
// and a url.Values map (natively: RawQuery = values.Encode(), which Query() parses back to
// exactly that map). (*url.URL).Query returns a copy of the registered map.

func (in *Interp) urlType() *types.Named {
	pkg := in.P.Prog.ImportedPackage("net/url")
	if pkg == nil {
		in.unsupported("package net/url not loaded")
	}
	return pkg.Type("URL").Type().(*types.Named)
}

func fieldIndex(st *types.Struct, name string) int {
	for i := 0; i < st.NumFields(); i++ {
		if st.Field(i).Name() == name {
			return i
		}
	}
	return -1
}

func init() {
	intrinsics[hpkg+"vURL"] = func(in *Interp, fr *frame, call *ssa.CallCommon, args []Value) Value {
		ut := in.urlType()
		cell := new(Value)
		*cell = in.zero(ut)
		st := ut.Underlying().(*types.Struct)
		(*cell).(Struct)[fieldIndex(st, "Path")] = args[0]
		if in.urlQueries == nil {
			in.urlQueries = map[*Value]*Map{}
		}
		m, _ := args[1].(*Map)
		in.urlQueries[cell] = m
		return cell
	}
	intrinsics["(*net/url.URL).Query"] = func(in *Interp, fr *frame, call *ssa.CallCommon, args []Value) Value {
		p := args[0].(*Value)
		src, ok := in.urlQueries[p]
		if !ok {
			return fallThrough{} // a URL produced by url.Parse: the real ParseQuery runs
		}
		in.noteModel("(*url.URL).Query returns the harness-supplied url.Values (natively RawQuery = Values.Encode())")
		in.mapSeq++
		out := &Map{KeyT: types.Typ[types.String], ValT: types.NewSlice(types.Typ[types.String]), ID: in.mapSeq}
		if src != nil {
			out.KeyT, out.ValT = src.KeyT, src.ValT
			for _, e := range src.Entries {
				s := e.V.(Slice)
				back := make([]Value, s.Len)
				copy(back, s.Back[:s.Len])
				out.Entries = append(out.Entries, &MapEntry{K: e.K, V: Slice{Back: back, Len: s.Len}})
			}
		}
		return out
	}
}

// BodyVal is the harness-supplied body of an *http.Request (io.ReadCloser boundary).
type BodyVal struct {
	Data Slice
	Fail bool
}

func init() {
	// vHTTPRequest(method, url, body, fail) *http.Request
	intrinsics[hpkg+"vHTTPRequest"] = func(in *Interp, fr *frame, call *ssa.CallCommon, args []Value) Value {
		pkg := in.P.Prog.ImportedPackage("net/http")
		if pkg == nil {
			in.unsupported("package net/http not loaded")
		}
		rt := pkg.Type("Request").Type().(*types.Named)
		st := rt.Underlying().(*types.Struct)
		cell := new(Value)
		*cell = in.zero(rt)
		s := (*cell).(Struct)
		s[fieldIndex(st, "Method")] = args[0]
		s[fieldIndex(st, "URL")] = args[1]
		s[fieldIndex(st, "Body")] = Iface{T: types.NewPointer(types.Typ[types.Uint8]), V: &BodyVal{Data: args[2].(Slice), Fail: term(args[3]).IsTrue()}}
		return cell
	}
	readAll := func(in *Interp, fr *frame, call *ssa.CallCommon, args []Value) Value {
		iv := args[0].(Iface)
		b, ok := iv.V.(*BodyVal)
		if !ok {
			in.unsupported("io.ReadAll on a reader not built by vHTTPRequest")
		}
		in.noteModel("io.ReadAll(r.Body) returns the harness-supplied bytes or an error")
		if b.Fail {
			return Tuple{Slice{}, in.newError(Str{S: "read error"})}
		}
		return Tuple{b.Data, Iface{}}
	}
	intrinsics["io/ioutil.ReadAll"] = readAll
	intrinsics["io.ReadAll"] = readAll
}

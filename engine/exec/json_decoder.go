package exec

import (
	"bytes"
	"encoding/json"
	"go/types"

	"golang.org/x/tools/go/ssa"

	"vsym/sym"
)

// Model of json.NewDecoder(r).Decode(v) for readers over an in-memory byte slice or string
// (*bytes.Reader, *strings.Reader, *bytes.Buffer). Decode reads ONE value from the front of
// the input and leaves the rest: unlike json.Unmarshal it does not look at what follows the
// value. A second Decode continues after the first value; at the end of the input it returns
// io.EOF. UseNumber / DisallowUnknownFields change decoding and are not modelled.

type decState struct {
	node *JNode      // the whole input as an abstract document (consumed by the first Decode)
	bs   []*sym.Term // or: the input text
	pos  int
	done bool
}

func (in *Interp) readerBytes(r Value) (Slice, bool) {
	iv, ok := r.(Iface)
	if !ok || iv.T == nil {
		return Slice{}, false
	}
	p, ok := iv.V.(*Value)
	if !ok || p == nil {
		return Slice{}, false
	}
	st, ok := in.load(p).(Struct)
	if !ok {
		return Slice{}, false
	}
	idx := -1
	switch typeString(iv.T) {
	case "*bytes.Reader", "*strings.Reader":
		idx = structFieldIndex(iv.T, "s")
	case "*bytes.Buffer":
		idx = structFieldIndex(iv.T, "buf")
	}
	if idx < 0 || idx >= len(st) {
		return Slice{}, false
	}
	switch v := st[idx].(type) {
	case Slice:
		return v, true
	case Str:
		bs := in.strBytes(v)
		back := make([]Value, len(bs))
		for i, b := range bs {
			back[i] = b
		}
		return Slice{Back: back, Len: len(bs)}, true
	}
	return Slice{}, false
}

func init() {
	intrinsics["encoding/json.NewDecoder"] = func(in *Interp, fr *frame, call *ssa.CallCommon, args []Value) Value {
		in.noteModel("encoding/json.Decoder over an in-memory reader (one value per Decode, trailing input left unread)")
		data, ok := in.readerBytes(args[0])
		if !ok {
			in.unsupported("json.NewDecoder over a reader that is not an in-memory one")
		}
		sig := call.Value.Type().Underlying().(*types.Signature)
		dt := sig.Results().At(0).Type().(*types.Pointer).Elem()
		cell := new(Value)
		*cell = in.zero(dt)
		st := &decState{}
		if data.JSON != nil {
			st.node = data.JSON
		} else {
			st.bs = make([]*sym.Term, data.Len)
			for i := 0; i < data.Len; i++ {
				st.bs[i] = term(data.Back[i])
			}
		}
		if in.decoders == nil {
			in.decoders = map[*Value]*decState{}
		}
		in.decoders[cell] = st
		return cell
	}
	for _, n := range []string{"(*encoding/json.Decoder).UseNumber", "(*encoding/json.Decoder).DisallowUnknownFields", "(*encoding/json.Decoder).More", "(*encoding/json.Decoder).Token", "(*encoding/json.Decoder).Buffered", "(*encoding/json.Decoder).InputOffset"} {
		name := n
		intrinsics[name] = func(in *Interp, fr *frame, call *ssa.CallCommon, args []Value) Value {
			in.unsupported("%s is not modelled", name)
			return nil
		}
	}
	intrinsics["(*encoding/json.Decoder).Decode"] = func(in *Interp, fr *frame, call *ssa.CallCommon, args []Value) Value {
		st := in.decoders[args[0].(*Value)]
		if st == nil {
			in.unsupported("Decode on a json.Decoder that was not made by NewDecoder")
		}
		target := args[1].(Iface)
		eof := func() Value {
			g := in.P.Prog.ImportedPackage("io").Var("EOF")
			return in.load(in.global(g))
		}
		var n *JNode
		switch {
		case st.done:
			return eof()
		case st.node != nil:
			n, st.done = st.node, true
		default:
			// skip white space; at the end of the input: io.EOF
			p := &symJSONParser{in: in, bs: st.bs, i: st.pos}
			p.ws()
			if p.i >= len(st.bs) {
				st.done = true
				return eof()
			}
			allConc := true
			for _, b := range st.bs[p.i:] {
				if !b.IsConst() {
					allConc = false
				}
			}
			if allConc {
				raw := make([]byte, 0, len(st.bs)-p.i)
				for _, b := range st.bs[p.i:] {
					raw = append(raw, byte(b.Val))
				}
				dec := json.NewDecoder(bytes.NewReader(raw))
				var rm json.RawMessage
				if err := dec.Decode(&rm); err != nil {
					st.done = true
					return in.newError(Str{S: "invalid character"})
				}
				n = in.fixBools(parseConcreteJSON(rm))
				st.pos = p.i + int(dec.InputOffset())
			} else {
				n = p.value(0)
				if n == nil {
					st.done = true
					return in.newError(Str{S: "invalid character"})
				}
				st.pos = p.i
			}
		}
		if n.Kind == JInvalid {
			st.done = true
			return in.newError(Str{S: "invalid character"})
		}
		if target.T == nil {
			return in.newError(Str{S: "json: Unmarshal(nil)"})
		}
		pt, ok := target.T.Underlying().(*types.Pointer)
		if !ok {
			return in.newError(Str{S: "json: Unmarshal(non-pointer)"})
		}
		tp := target.V.(*Value)
		if tp == nil {
			return in.newError(Str{S: "json: Unmarshal(nil pointer)"})
		}
		u := &unmarshalState{}
		in.jsonUnmarshalInto(u, n, pt.Elem(), tp)
		if u.err != nil {
			return in.newError(Str{S: u.err.msg})
		}
		return Iface{}
	}
}

// Model of json.NewEncoder(w).Encode(v): the value is marshaled as by json.Marshal, rendered
// to its exact text (symbolic leaves byte by byte), a newline is appended and the bytes are
// handed to w.Write. SetEscapeHTML / SetIndent change the text and are not modelled.
func init() {
	intrinsics["encoding/json.NewEncoder"] = func(in *Interp, fr *frame, call *ssa.CallCommon, args []Value) Value {
		in.noteModel("encoding/json.Encoder (Marshal, exact text, newline, one Write)")
		sig := call.Value.Type().Underlying().(*types.Signature)
		et := sig.Results().At(0).Type().(*types.Pointer).Elem()
		cell := new(Value)
		*cell = in.zero(et)
		if in.encoders == nil {
			in.encoders = map[*Value]Iface{}
		}
		in.encoders[cell] = args[0].(Iface)
		return cell
	}
	for _, n := range []string{"(*encoding/json.Encoder).SetEscapeHTML", "(*encoding/json.Encoder).SetIndent"} {
		name := n
		intrinsics[name] = func(in *Interp, fr *frame, call *ssa.CallCommon, args []Value) Value {
			in.unsupported("%s is not modelled", name)
			return nil
		}
	}
	intrinsics["(*encoding/json.Encoder).Encode"] = func(in *Interp, fr *frame, call *ssa.CallCommon, args []Value) Value {
		w, ok := in.encoders[args[0].(*Value)]
		if !ok || w.T == nil {
			in.unsupported("Encode on a json.Encoder that was not made by NewEncoder")
		}
		iv := args[1].(Iface)
		var n *JNode
		var err *jsonErr
		if iv.T == nil {
			n = &JNode{Kind: JNull}
		} else {
			n, err = in.jsonMarshal(iv.T, iv.V)
		}
		if err != nil {
			return in.newError(Str{S: err.msg})
		}
		ri, rj := in.renderInts, in.renderJSON
		in.renderInts, in.renderJSON = true, true
		bs, okr := in.jsonRender(n)
		in.renderInts, in.renderJSON = ri, rj
		if !okr {
			in.unsupported("json.Encoder output whose text cannot be rendered")
		}
		back := make([]Value, len(bs)+1)
		for i, b := range bs {
			back[i] = b
		}
		back[len(bs)] = in.Ctx.BV(8, '\n')
		f := in.P.Prog.LookupMethod(w.T, nil, "Write")
		if f == nil {
			in.unsupported("no Write method on %s", w.T)
		}
		r := in.call(fr, f, nil, []Value{w.V, Slice{Back: back, Len: len(back)}})
		if t, ok := r.(Tuple); ok && len(t) == 2 {
			if e, ok := t[1].(Iface); ok {
				return e
			}
		}
		return Iface{}
	}
}

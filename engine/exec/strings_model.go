package exec

import (
	"fmt"
	"strings"

	"golang.org/x/tools/go/ssa"

	"vsym/sym"
)

// Models of the assembly-backed string primitives (internal/bytealg) and of strings.Builder's
// unsafe parts, so that pure-Go standard-library code above them (strings.Cut/Index/Contains,
// net/url parsing and unescaping) can be executed from its own SSA on partly symbolic text.

// indexByte returns the index of the first byte equal to c (deciding symbolic positions), or -1.
func (in *Interp) indexByte(s Str, c *sym.Term) int {
	n := s.Len()
	for i := 0; i < n; i++ {
		if in.Path.Branch(in.Ctx.Eq(in.strAt(s, i), c)) {
			return i
		}
	}
	return -1
}

func (in *Interp) indexString(s, sep Str) int {
	if s.IsConc() && sep.IsConc() {
		return strings.Index(s.S, sep.S)
	}
	n, m := s.Len(), sep.Len()
	if m == 0 {
		return 0
	}
	for i := 0; i+m <= n; i++ {
		if in.Path.Branch(in.strEq(in.substr(s, i, i+m), sep)) {
			return i
		}
	}
	return -1
}

func init() {
	c64 := func(in *Interp, v int) Value { return in.Ctx.BV(64, uint64(int64(v))) }
	idxByte := func(in *Interp, fr *frame, call *ssa.CallCommon, args []Value) Value {
		return c64(in, in.indexByte(in.bytesAsStr(args[0]), term(args[1])))
	}
	intrinsics["internal/bytealg.IndexByteString"] = idxByte
	intrinsics["internal/bytealg.IndexByte"] = idxByte
	intrinsics["strings.IndexByte"] = idxByte
	idxStr := func(in *Interp, fr *frame, call *ssa.CallCommon, args []Value) Value {
		return c64(in, in.indexString(in.bytesAsStr(args[0]), in.bytesAsStr(args[1])))
	}
	intrinsics["internal/bytealg.IndexString"] = idxStr
	intrinsics["internal/bytealg.Index"] = idxStr
	intrinsics["strings.Index"] = idxStr
	intrinsics["internal/stringslite.Index"] = idxStr
	intrinsics["strings.Contains"] = func(in *Interp, fr *frame, call *ssa.CallCommon, args []Value) Value {
		return in.Ctx.Bool(in.indexString(args[0].(Str), args[1].(Str)) >= 0)
	}
	cnt := func(in *Interp, fr *frame, call *ssa.CallCommon, args []Value) Value {
		s := in.bytesAsStr(args[0])
		c := term(args[1])
		k := 0
		for i := 0; i < s.Len(); i++ {
			if in.Path.Branch(in.Ctx.Eq(in.strAt(s, i), c)) {
				k++
			}
		}
		return c64(in, k)
	}
	intrinsics["internal/bytealg.CountString"] = cnt
	intrinsics["internal/bytealg.Count"] = cnt
	intrinsics["strings.LastIndex"] = func(in *Interp, fr *frame, call *ssa.CallCommon, args []Value) Value {
		s, sep := args[0].(Str), args[1].(Str)
		if s.IsConc() && sep.IsConc() {
			return c64(in, strings.LastIndex(s.S, sep.S))
		}
		n, m := s.Len(), sep.Len()
		for i := n - m; i >= 0; i-- {
			if in.Path.Branch(in.strEq(in.substr(s, i, i+m), sep)) {
				return c64(in, i)
			}
		}
		return c64(in, -1)
	}
	intrinsics["strings.LastIndexByte"] = func(in *Interp, fr *frame, call *ssa.CallCommon, args []Value) Value {
		s := args[0].(Str)
		c := term(args[1])
		for i := s.Len() - 1; i >= 0; i-- {
			if in.Path.Branch(in.Ctx.Eq(in.strAt(s, i), c)) {
				return c64(in, i)
			}
		}
		return c64(in, -1)
	}
	// strings.Builder: the buffer is an ordinary []byte; only the unsafe bits are replaced
	intrinsics["(*strings.Builder).copyCheck"] = func(in *Interp, fr *frame, call *ssa.CallCommon, args []Value) Value { return nil }
	intrinsics["(*strings.Builder).Grow"] = func(in *Interp, fr *frame, call *ssa.CallCommon, args []Value) Value { return nil }
	intrinsics["(*strings.Builder).grow"] = func(in *Interp, fr *frame, call *ssa.CallCommon, args []Value) Value { return nil }
	intrinsics["(*strings.Builder).String"] = func(in *Interp, fr *frame, call *ssa.CallCommon, args []Value) Value {
		p := args[0].(*Value)
		st := (*p).(Struct)
		// fields: addr *Builder, buf []byte
		buf := st[1].(Slice)
		return in.bytesAsStr(buf)
	}
	intrinsics["strings.ToLower"] = func(in *Interp, fr *frame, call *ssa.CallCommon, args []Value) Value {
		s := args[0].(Str)
		if s.IsConc() {
			return Str{S: strings.ToLower(s.S)}
		}
		return fallThrough{}
	}
	// strings.TrimSpace on partly symbolic text: leading and trailing bytes are classified one
	// by one (ASCII white space: \t \n \v \f \r and space); a byte >= 0x80 at a boundary
	// would need Unicode decoding and ends the path as unsupported.
	intrinsics["strings.TrimSpace"] = func(in *Interp, fr *frame, call *ssa.CallCommon, args []Value) Value {
		s := args[0].(Str)
		if s.IsConc() {
			return Str{S: strings.TrimSpace(s.S)}
		}
		if s.Opq != nil {
			in.unsupported("strings.TrimSpace of opaque text (%s)", s.Opq.What)
		}
		c := in.Ctx
		bs := in.strBytes(s)
		isSpace := func(b *sym.Term) bool {
			if in.Path.Branch(c.Cmp(sym.OpUle, c.BV(8, 0x80), b)) {
				in.unsupported("strings.TrimSpace: non-ASCII byte at a boundary")
			}
			sp := c.Or(c.Eq(b, c.BV(8, ' ')), c.And(c.Cmp(sym.OpUle, c.BV(8, '\t'), b), c.Cmp(sym.OpUle, b, c.BV(8, '\r'))))
			return in.Path.Branch(sp)
		}
		start, end := 0, len(bs)
		for start < end && isSpace(bs[start]) {
			start++
		}
		for end > start && isSpace(bs[end-1]) {
			end--
		}
		return in.mkStr(bs[start:end])
	}
	intrinsics["strconv.Itoa"] = func(in *Interp, fr *frame, call *ssa.CallCommon, args []Value) Value {
		return in.decimalOf(term(args[0]), true)
	}
}

// decimalOf renders an integer in decimal. For a symbolic value the number of digits is
// decided by forking over the counts the value's interval allows; the digits are fresh
// symbolic bytes tied to the value by the same Horner form strconv.Atoi builds, so that
// parsing the text back is syntactically the value again.
func (in *Interp) decimalOf(t *sym.Term, signed bool) Str {
	c := in.Ctx
	if t.IsConst() {
		if signed {
			return Str{S: fmt.Sprint(t.Int())}
		}
		return Str{S: fmt.Sprint(t.Val)}
	}
	in.noteModel("decimal rendering of a symbolic integer: digits are fresh symbolic bytes constrained by value = Horner(digits)")
	v := t
	if v.W < 64 {
		if signed {
			v = c.SExt(v, 64)
		} else {
			v = c.ZExt(v, 64)
		}
	}
	neg := false
	if signed && in.Path.Branch(c.Cmp(sym.OpSlt, v, c.BV(64, 0))) {
		neg = true
		if in.Path.Branch(c.Eq(v, c.BV(64, 1<<63))) {
			return Str{S: "-9223372036854775808"}
		}
		v = c.Neg(v)
	}
	// digit count k: 10^(k-1) <= v < 10^k
	pow := uint64(1)
	k := 0
	for d := 1; d <= 20; d++ {
		var lt *sym.Term
		if d == 20 {
			lt = c.T
		} else {
			pow *= 10
			lt = c.Cmp(sym.OpUlt, v, c.BV(64, pow))
		}
		if in.Path.Branch(lt) {
			k = d
			break
		}
	}
	in.mapSeq++
	digits := make([]*sym.Term, k)
	acc := c.BV(64, 0)
	for i := 0; i < k; i++ {
		d := c.Var(fmt.Sprintf("dec%d.%d", in.mapSeq, i), 8)
		lo := byte('0')
		if i == 0 && k > 1 {
			lo = '1'
		}
		in.Path.Assume(c.And(c.Cmp(sym.OpUle, c.BV(8, uint64(lo)), d), c.Cmp(sym.OpUle, d, c.BV(8, '9'))))
		digits[i] = d
		acc = c.Bin(sym.OpAdd, c.Bin(sym.OpMul, acc, c.BV(64, 10)), c.ZExt(c.Bin(sym.OpSub, d, c.BV(8, '0')), 64))
	}
	in.Path.Assume(c.Eq(acc, v))
	out := digits
	if neg {
		out = append([]*sym.Term{c.BV(8, '-')}, digits...)
	}
	return Str{B: out}
}

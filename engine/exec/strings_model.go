package exec

import (
	"strconv"
	"fmt"
	"strings"

	"golang.org/x/tools/go/ssa"

	"vsym/sym"
)

// Models of the assembly-backed string primitives (internal/bytealg) and of strings.Builder's
// unsafe parts, so that pure-Go standard-library code above them (strings.Cut/Index/Contains,
// net/url parsing and unescaping) can be executed from its own SSA on partly symbolic text.

// indexByte returns the index of the first byte equal to c (deciding symbolic positions), or -1.
func (in *Interp) indexByte(s Str, c *sym.Term) int {
	n := s.Len()
	for i := 0; i < n; i++ {
		if in.Path.Branch(in.Ctx.Eq(in.strAt(s, i), c)) {
			return i
		}
	}
	return -1
}

func (in *Interp) indexString(s, sep Str) int {
	if s.IsConc() && sep.IsConc() {
		return strings.Index(s.S, sep.S)
	}
	n, m := s.Len(), sep.Len()
	if m == 0 {
		return 0
	}
	for i := 0; i+m <= n; i++ {
		if in.Path.Branch(in.strEq(in.substr(s, i, i+m), sep)) {
			return i
		}
	}
	return -1
}

func init() {
	c64 := func(in *Interp, v int) Value { return in.Ctx.BV(64, uint64(int64(v))) }
	idxByte := func(in *Interp, fr *frame, call *ssa.CallCommon, args []Value) Value {
		return c64(in, in.indexByte(in.bytesAsStr(args[0]), term(args[1])))
	}
	intrinsics["internal/bytealg.IndexByteString"] = idxByte
	intrinsics["internal/bytealg.IndexByte"] = idxByte
	intrinsics["strings.IndexByte"] = idxByte
	idxStr := func(in *Interp, fr *frame, call *ssa.CallCommon, args []Value) Value {
		return c64(in, in.indexString(in.bytesAsStr(args[0]), in.bytesAsStr(args[1])))
	}
	intrinsics["internal/bytealg.IndexString"] = idxStr
	intrinsics["internal/bytealg.Index"] = idxStr
	intrinsics["strings.Index"] = idxStr
	intrinsics["internal/stringslite.Index"] = idxStr
	intrinsics["strings.Contains"] = func(in *Interp, fr *frame, call *ssa.CallCommon, args []Value) Value {
		return in.Ctx.Bool(in.indexString(args[0].(Str), args[1].(Str)) >= 0)
	}
	cnt := func(in *Interp, fr *frame, call *ssa.CallCommon, args []Value) Value {
		s := in.bytesAsStr(args[0])
		c := term(args[1])
		k := 0
		for i := 0; i < s.Len(); i++ {
			if in.Path.Branch(in.Ctx.Eq(in.strAt(s, i), c)) {
				k++
			}
		}
		return c64(in, k)
	}
	intrinsics["internal/bytealg.CountString"] = cnt
	intrinsics["internal/bytealg.Count"] = cnt
	intrinsics["strings.LastIndex"] = func(in *Interp, fr *frame, call *ssa.CallCommon, args []Value) Value {
		s, sep := args[0].(Str), args[1].(Str)
		if s.IsConc() && sep.IsConc() {
			return c64(in, strings.LastIndex(s.S, sep.S))
		}
		n, m := s.Len(), sep.Len()
		for i := n - m; i >= 0; i-- {
			if in.Path.Branch(in.strEq(in.substr(s, i, i+m), sep)) {
				return c64(in, i)
			}
		}
		return c64(in, -1)
	}
	intrinsics["strings.LastIndexByte"] = func(in *Interp, fr *frame, call *ssa.CallCommon, args []Value) Value {
		s := args[0].(Str)
		c := term(args[1])
		for i := s.Len() - 1; i >= 0; i-- {
			if in.Path.Branch(in.Ctx.Eq(in.strAt(s, i), c)) {
				return c64(in, i)
			}
		}
		return c64(in, -1)
	}
	// strings.Builder: the buffer is an ordinary []byte; only the unsafe bits are replaced
	intrinsics["(*strings.Builder).copyCheck"] = func(in *Interp, fr *frame, call *ssa.CallCommon, args []Value) Value { return nil }
	intrinsics["(*strings.Builder).Grow"] = func(in *Interp, fr *frame, call *ssa.CallCommon, args []Value) Value { return nil }
	intrinsics["(*strings.Builder).grow"] = func(in *Interp, fr *frame, call *ssa.CallCommon, args []Value) Value { return nil }
	intrinsics["(*strings.Builder).String"] = func(in *Interp, fr *frame, call *ssa.CallCommon, args []Value) Value {
		p := args[0].(*Value)
		st := (*p).(Struct)
		// fields: addr *Builder, buf []byte
		buf := st[1].(Slice)
		return in.bytesAsStr(buf)
	}
	intrinsics["strings.ToLower"] = func(in *Interp, fr *frame, call *ssa.CallCommon, args []Value) Value {
		s := args[0].(Str)
		if s.IsConc() {
			return Str{S: strings.ToLower(s.S)}
		}
		return fallThrough{}
	}
	// strings.TrimSpace on partly symbolic text: leading and trailing bytes are classified one
	// by one (ASCII white space: \t \n \v \f \r and space); a byte >= 0x80 at a boundary
	// would need Unicode decoding and ends the path as unsupported.
	intrinsics["strings.TrimSpace"] = func(in *Interp, fr *frame, call *ssa.CallCommon, args []Value) Value {
		s := args[0].(Str)
		if s.IsConc() {
			return Str{S: strings.TrimSpace(s.S)}
		}
		if s.Opq != nil {
			in.unsupported("strings.TrimSpace of opaque text (%s)", s.Opq.What)
		}
		c := in.Ctx
		bs := in.strBytes(s)
		isSpace := func(b *sym.Term) bool {
			if in.Path.Branch(c.Cmp(sym.OpUle, c.BV(8, 0x80), b)) {
				in.unsupported("strings.TrimSpace: non-ASCII byte at a boundary")
			}
			sp := c.Or(c.Eq(b, c.BV(8, ' ')), c.And(c.Cmp(sym.OpUle, c.BV(8, '\t'), b), c.Cmp(sym.OpUle, b, c.BV(8, '\r'))))
			return in.Path.Branch(sp)
		}
		start, end := 0, len(bs)
		for start < end && isSpace(bs[start]) {
			start++
		}
		for end > start && isSpace(bs[end-1]) {
			end--
		}
		return in.mkStr(bs[start:end])
	}
	// strings.IndexAny / ContainsAny: concrete text by the library itself; symbolic bytes are
	// classified one by one (ASCII sets only); the text of an integer leaf of an abstract JSON
	// document consists of digits and possibly a minus sign.
	indexAny := func(in *Interp, s Str, chars Str) int {
		if !chars.IsConc() {
			in.unsupported("strings.IndexAny with a symbolic character set")
		}
		if s.IsConc() {
			return strings.IndexAny(s.S, chars.S)
		}
		for i := 0; i < len(chars.S); i++ {
			if chars.S[i] >= 0x80 {
				in.unsupported("strings.IndexAny with a non-ASCII character set on symbolic text")
			}
		}
		if s.Opq != nil {
			if s.Opq.JSON != nil && s.Opq.JSON.Kind == JNumVal && !strings.ContainsAny(chars.S, "-0123456789") {
				return -1
			}
			in.unsupported("strings.IndexAny on opaque text (%s)", s.Opq.What)
		}
		c := in.Ctx
		for i, b := range in.strBytes(s) {
			hit := c.F
			for k := 0; k < len(chars.S); k++ {
				hit = c.Or(hit, c.Eq(b, c.BV(8, uint64(chars.S[k]))))
			}
			if in.Path.Branch(hit) {
				return i
			}
		}
		return -1
	}
	intrinsics["strings.IndexAny"] = func(in *Interp, fr *frame, call *ssa.CallCommon, args []Value) Value {
		return in.Ctx.BV(64, uint64(int64(indexAny(in, args[0].(Str), args[1].(Str)))))
	}
	intrinsics["strings.ContainsAny"] = func(in *Interp, fr *frame, call *ssa.CallCommon, args []Value) Value {
		return in.Ctx.Bool(indexAny(in, args[0].(Str), args[1].(Str)) >= 0)
	}
	// floating-point text conversions: concrete values only (floats are never symbolic here)
	intrinsics["strconv.ParseFloat"] = func(in *Interp, fr *frame, call *ssa.CallCommon, args []Value) Value {
		s := args[0].(Str)
		bits := term(args[1])
		if !s.IsConc() || !bits.IsConst() {
			in.unsupported("strconv.ParseFloat of symbolic text")
		}
		f, err := strconv.ParseFloat(s.S, int(bits.Val))
		if err != nil {
			return Tuple{f, in.newError(Str{S: err.Error()})}
		}
		return Tuple{f, Iface{}}
	}
	intrinsics["strconv.FormatFloat"] = func(in *Interp, fr *frame, call *ssa.CallCommon, args []Value) Value {
		f, ok := args[0].(float64)
		if !ok || !term(args[1]).IsConst() || !term(args[2]).IsConst() || !term(args[3]).IsConst() {
			in.unsupported("strconv.FormatFloat of a number that is not a concrete float")
		}
		return Str{S: strconv.FormatFloat(f, byte(term(args[1]).Val), int(term(args[2]).Int()), int(term(args[3]).Val))}
	}
	intrinsics["strconv.AppendFloat"] = func(in *Interp, fr *frame, call *ssa.CallCommon, args []Value) Value {
		dst := args[0].(Slice)
		f, ok := args[1].(float64)
		if !ok || dst.JSON != nil || !term(args[2]).IsConst() || !term(args[3]).IsConst() || !term(args[4]).IsConst() {
			in.unsupported("strconv.AppendFloat of a number that is not a concrete float")
		}
		txt := strconv.FormatFloat(f, byte(term(args[2]).Val), int(term(args[3]).Int()), int(term(args[4]).Val))
		back := make([]Value, 0, dst.Len+len(txt))
		back = append(back, dst.Back[:dst.Len]...)
		for i := 0; i < len(txt); i++ {
			back = append(back, in.Ctx.BV(8, uint64(txt[i])))
		}
		return Slice{Back: back, Len: len(back)}
	}
	intrinsics["strconv.Itoa"] = func(in *Interp, fr *frame, call *ssa.CallCommon, args []Value) Value {
		return in.decimalOf(term(args[0]), true)
	}
}

// decimalOf renders an integer in decimal. For a symbolic value the number of digits is
// decided by forking over the counts the value's interval allows; the digits are fresh
// symbolic bytes tied to the value by the same Horner form strconv.Atoi builds, so that
// parsing the text back is syntactically the value again.
func (in *Interp) decimalOf(t *sym.Term, signed bool) Str {
	c := in.Ctx
	if t.IsConst() {
		if signed {
			return Str{S: fmt.Sprint(t.Int())}
		}
		return Str{S: fmt.Sprint(t.Val)}
	}
	in.noteModel("decimal rendering of a symbolic integer: digits are fresh symbolic bytes constrained by value = Horner(digits)")
	v := t
	if v.W < 64 {
		if signed {
			v = c.SExt(v, 64)
		} else {
			v = c.ZExt(v, 64)
		}
	}
	neg := false
	if signed && in.Path.Branch(c.Cmp(sym.OpSlt, v, c.BV(64, 0))) {
		neg = true
		if in.Path.Branch(c.Eq(v, c.BV(64, 1<<63))) {
			return Str{S: "-9223372036854775808"}
		}
		v = c.Neg(v)
	}
	// digit count k: 10^(k-1) <= v < 10^k
	pow := uint64(1)
	k := 0
	for d := 1; d <= 20; d++ {
		var lt *sym.Term
		if d == 20 {
			lt = c.T
		} else {
			pow *= 10
			lt = c.Cmp(sym.OpUlt, v, c.BV(64, pow))
		}
		if in.Path.Branch(lt) {
			k = d
			break
		}
	}
	in.mapSeq++
	digits := make([]*sym.Term, k)
	acc := c.BV(64, 0)
	for i := 0; i < k; i++ {
		d := c.Var(fmt.Sprintf("dec%d.%d", in.mapSeq, i), 8)
		lo := byte('0')
		if i == 0 && k > 1 {
			lo = '1'
		}
		in.Path.Assume(c.And(c.Cmp(sym.OpUle, c.BV(8, uint64(lo)), d), c.Cmp(sym.OpUle, d, c.BV(8, '9'))))
		digits[i] = d
		acc = c.Bin(sym.OpAdd, c.Bin(sym.OpMul, acc, c.BV(64, 10)), c.ZExt(c.Bin(sym.OpSub, d, c.BV(8, '0')), 64))
	}
	in.Path.Assume(c.Eq(acc, v))
	out := digits
	if neg {
		out = append([]*sym.Term{c.BV(8, '-')}, digits...)
	}
	return Str{B: out}
}

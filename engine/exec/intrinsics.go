package exec

import (
	"math/bits"
	"math"
	"fmt"
	"go/types"
	"net/http"
	"sort"
	"strconv"
	"strings"

	"golang.org/x/tools/go/ssa"

	"vsym/sym"
)

const hpkg = "github.com/mfcochauxlaberge/jsonapi."

func concStr(v Value) (string, bool) {
	s, ok := v.(Str)
	if !ok || !s.IsConc() {
		return "", false
	}
	return s.S, true
}

func (in *Interp) mustConcStr(v Value, what string) string {
	s, ok := concStr(v)
	if !ok {
		in.unsupported("%s must be a concrete string", what)
	}
	return s
}

func (in *Interp) nondetScalar(name string, w int, kind string) *sym.Term {
	if in.Path.ndNames == nil {
		in.Path.ndNames = map[string]bool{}
	}
	if in.Path.ndNames[name] {
		in.unsupported("duplicate nondet name %q", name)
	}
	in.Path.ndNames[name] = true
	t := in.Ctx.Var(name, w)
	in.Path.Nondets = append(in.Path.Nondets, &NondetRec{Name: name, Kind: kind, W: w, Term: t})
	return t
}

func (in *Interp) nondetBytes(name string, lo, hi int, kind string) []*sym.Term {
	if in.Path.ndNames == nil {
		in.Path.ndNames = map[string]bool{}
	}
	if in.Path.ndNames[name] {
		in.unsupported("duplicate nondet name %q", name)
	}
	in.Path.ndNames[name] = true
	n := lo
	if hi > lo {
		n = lo + in.Path.Choose(hi-lo+1, nil)
	}
	b := make([]*sym.Term, n)
	for i := range b {
		b[i] = in.Ctx.Var(fmt.Sprintf("%s#%d", name, i), 8)
	}
	in.Path.Nondets = append(in.Path.Nondets, &NondetRec{Name: name, Kind: kind, Str: b})
	return b
}

func regNondet(name string, w int) {
	intrinsics[hpkg+name] = func(in *Interp, fr *frame, call *ssa.CallCommon, args []Value) Value {
		kind := "int"
		if w == 0 {
			kind = "bool"
		}
		return in.nondetScalar(in.mustConcStr(args[0], "nondet name"), w, kind)
	}
}

func init() {
	regNondet("vNondetBool", 0)
	regNondet("vNondetInt", 64)
	regNondet("vNondetInt8", 8)
	regNondet("vNondetInt16", 16)
	regNondet("vNondetInt32", 32)
	regNondet("vNondetInt64", 64)
	regNondet("vNondetUint", 64)
	regNondet("vNondetUint8", 8)
	regNondet("vNondetUint16", 16)
	regNondet("vNondetUint32", 32)
	regNondet("vNondetUint64", 64)

	intrinsics[hpkg+"vNondetStr"] = func(in *Interp, fr *frame, call *ssa.CallCommon, args []Value) Value {
		name := in.mustConcStr(args[0], "nondet name")
		lo, hi := in.concInt(args[1], "min"), in.concInt(args[2], "max")
		b := in.nondetBytes(name, lo, hi, "str")
		if len(b) == 0 {
			return Str{}
		}
		return Str{B: b}
	}
	intrinsics[hpkg+"vNondetBytes"] = func(in *Interp, fr *frame, call *ssa.CallCommon, args []Value) Value {
		name := in.mustConcStr(args[0], "nondet name")
		lo, hi := in.concInt(args[1], "min"), in.concInt(args[2], "max")
		b := in.nondetBytes(name, lo, hi, "bytes")
		back := make([]Value, len(b))
		for i := range b {
			back[i] = b[i]
		}
		return Slice{Back: back, Len: len(back)}
	}
	intrinsics[hpkg+"vNondetChoice"] = func(in *Interp, fr *frame, call *ssa.CallCommon, args []Value) Value {
		name := in.mustConcStr(args[0], "nondet name")
		n := in.concInt(args[1], "n")
		if in.Path.ndNames == nil {
			in.Path.ndNames = map[string]bool{}
		}
		if in.Path.ndNames[name] {
			in.unsupported("duplicate nondet name %q", name)
		}
		in.Path.ndNames[name] = true
		d := 0
		if n > 1 {
			d = in.Path.Choose(n, nil)
		}
		in.Path.Nondets = append(in.Path.Nondets, &NondetRec{Name: name, Kind: "choice", Idx: d})
		return in.Ctx.BV(64, uint64(d))
	}
	intrinsics[hpkg+"vNondetTime"] = func(in *Interp, fr *frame, call *ssa.CallCommon, args []Value) Value {
		name := in.mustConcStr(args[0], "nondet name")
		sec := in.nondetScalar(name+".sec", 64, "int")   // seconds since year 1 (internal ext)
		nsec := in.nondetScalar(name+".nsec", 64, "int") // 0..999999999
		c := in.Ctx
		in.Path.Assume(c.Cmp(sym.OpUlt, nsec, c.BV(64, 1000000000)))
		// years 1..9999
		in.Path.Assume(c.Cmp(sym.OpUlt, sec, c.BV(64, 315537897600)))
		return Struct{nsec, sec, (*Value)(nil)}
	}
	intrinsics[hpkg+"vAssume"] = func(in *Interp, fr *frame, call *ssa.CallCommon, args []Value) Value {
		in.Path.Assume(term(args[0]))
		return nil
	}
	intrinsics[hpkg+"vAssert"] = func(in *Interp, fr *frame, call *ssa.CallCommon, args []Value) Value {
		in.Path.Assert(term(args[0]), in.mustConcStr(args[1], "assert id"))
		return nil
	}
	intrinsics[hpkg+"vReach"] = func(in *Interp, fr *frame, call *ssa.CallCommon, args []Value) Value {
		in.Path.Reach(in.mustConcStr(args[0], "label"))
		return nil
	}
	intrinsics[hpkg+"vConfirm"] = func(in *Interp, fr *frame, call *ssa.CallCommon, args []Value) Value {
		in.Path.Confirm(term(args[1]), in.mustConcStr(args[0], "finding"))
		return nil
	}
	intrinsics[hpkg+"vKnown"] = func(in *Interp, fr *frame, call *ssa.CallCommon, args []Value) Value {
		return in.Ctx.Bool(in.P.Known[in.mustConcStr(args[0], "finding")])
	}
	intrinsics[hpkg+"vObserve"] = func(in *Interp, fr *frame, call *ssa.CallCommon, args []Value) Value {
		in.Path.Events = append(in.Path.Events, Event{Kind: "observe", ID: in.mustConcStr(args[0], "label"), Obs: args[1]})
		return nil
	}
	intrinsics[hpkg+"vAnd"] = func(in *Interp, fr *frame, call *ssa.CallCommon, args []Value) Value {
		return in.Ctx.And(term(args[0]), term(args[1]))
	}
	intrinsics[hpkg+"vOr"] = func(in *Interp, fr *frame, call *ssa.CallCommon, args []Value) Value {
		return in.Ctx.Or(term(args[0]), term(args[1]))
	}
	intrinsics[hpkg+"vNot"] = func(in *Interp, fr *frame, call *ssa.CallCommon, args []Value) Value {
		return in.Ctx.Not(term(args[0]))
	}
	intrinsics[hpkg+"vImplies"] = func(in *Interp, fr *frame, call *ssa.CallCommon, args []Value) Value {
		return in.Ctx.Implies(term(args[0]), term(args[1]))
	}
	intrinsics[hpkg+"vIteInt"] = func(in *Interp, fr *frame, call *ssa.CallCommon, args []Value) Value {
		return in.Ctx.Ite(term(args[0]), term(args[1]), term(args[2]))
	}
	intrinsics[hpkg+"vRenderQuote"] = func(in *Interp, fr *frame, call *ssa.CallCommon, args []Value) Value {
		in.renderQuote = term(args[0]).IsTrue()
		return nil
	}
	intrinsics[hpkg+"vRenderText"] = func(in *Interp, fr *frame, call *ssa.CallCommon, args []Value) Value {
		on := term(args[0]).IsTrue()
		in.renderInts, in.renderJSON = on, on
		return nil
	}
	intrinsics[hpkg+"vTier"] = func(in *Interp, fr *frame, call *ssa.CallCommon, args []Value) Value {
		return in.Ctx.BV(64, uint64(in.P.Tier))
	}
	intrinsics[hpkg+"vMapOrder"] = func(in *Interp, fr *frame, call *ssa.CallCommon, args []Value) Value {
		in.mapOrderMode = in.concInt(args[0], "mode")
		fns := in.mustConcStr(args[1], "function list")
		in.mapOrderFns = nil
		if fns != "" {
			in.mapOrderFns = strings.Split(fns, ",")
		}
		return nil
	}
	intrinsics[hpkg+"vExpectPanic"] = func(in *Interp, fr *frame, call *ssa.CallCommon, args []Value) (res Value) {
		depth := in.depth
		defer func() {
			if r := recover(); r != nil {
				if _, ok := r.(*ProgPanic); ok {
					in.depth = depth
					res = in.Ctx.T
					return
				}
				panic(r)
			}
		}()
		in.call(fr, args[0], nil, nil)
		return in.Ctx.F
	}
	intrinsics[hpkg+"vDeepEq"] = func(in *Interp, fr *frame, call *ssa.CallCommon, args []Value) Value {
		return in.deepEq(call.Args[0].Type(), args[0], args[1], map[[2]*Value]bool{})
	}
	intrinsics["reflect.DeepEqual"] = func(in *Interp, fr *frame, call *ssa.CallCommon, args []Value) Value {
		in.noteModel("reflect.DeepEqual")
		return in.deepEq(call.Args[0].Type(), args[0], args[1], map[[2]*Value]bool{})
	}
	intrinsics[hpkg+"vSnapshot"] = func(in *Interp, fr *frame, call *ssa.CallCommon, args []Value) Value {
		return in.snapshot(args[0], map[*Value]*Value{}, map[*Map]*Map{})
	}
	intrinsics[hpkg+"vFreeze"] = func(in *Interp, fr *frame, call *ssa.CallCommon, args []Value) Value {
		in.freezeValue(args[0], map[*Value]bool{})
		in.freezeOn = true
		return nil
	}
	intrinsics[hpkg+"vThaw"] = func(in *Interp, fr *frame, call *ssa.CallCommon, args []Value) Value {
		in.freezeOn = false
		in.frozen = map[*Value]bool{}
		in.frozenMaps = map[*Map]bool{}
		return nil
	}
	// vSharedWrite runs f and reports whether it wrote to frozen (shared) state; the
	// closure is abandoned at the first such write.
	intrinsics[hpkg+"vSharedWrite"] = func(in *Interp, fr *frame, call *ssa.CallCommon, args []Value) (res Value) {
		depth := in.depth
		defer func() {
			if r := recover(); r != nil {
				if sw, ok := r.(*SharedWrite); ok {
					in.depth = depth
					in.Path.Events = append(in.Path.Events, Event{Kind: "note", ID: "shared-write", Lit: sw.Where})
					res = in.Ctx.T
					return
				}
				panic(r)
			}
		}()
		in.call(fr, args[0], nil, nil)
		return in.Ctx.F
	}

	// ---- stdlib models ----
	intrinsics["internal/stringslite.Clone"] = func(in *Interp, fr *frame, call *ssa.CallCommon, args []Value) Value { return args[0] }
	intrinsics["strings.Clone"] = intrinsics["internal/stringslite.Clone"]
	intrinsics["strconv.cloneString"] = intrinsics["internal/stringslite.Clone"]
	intrinsics["strings.Split"] = modelSplit
	intrinsics["strings.Join"] = func(in *Interp, fr *frame, call *ssa.CallCommon, args []Value) Value {
		s := args[0].(Slice)
		sep := args[1].(Str)
		var r Str
		for i := 0; i < s.Len; i++ {
			if i > 0 {
				r = in.strConcat(r, sep)
			}
			r = in.strConcat(r, s.Back[i].(Str))
		}
		return r
	}
	intrinsics["sort.Strings"] = func(in *Interp, fr *frame, call *ssa.CallCommon, args []Value) Value {
		s := args[0].(Slice)
		ss := make([]string, s.Len)
		for i := 0; i < s.Len; i++ {
			c, ok := concStr(s.Back[i])
			if !ok {
				return in.symSortStrings(s)
			}
			ss[i] = c
		}
		if sort.StringsAreSorted(ss) {
			return nil // no writes happen (insertion sort on sorted input swaps nothing)
		}
		sort.Strings(ss)
		for i := range ss {
			in.checkWrite(&s.Back[i])
			s.Back[i] = Str{S: ss[i]}
		}
		return nil
	}
	intrinsics["sort.Slice"] = modelSortSlice
	intrinsics["strconv.Atoi"] = func(in *Interp, fr *frame, call *ssa.CallCommon, args []Value) Value {
		s := args[0].(Str)
		if s.Opq != nil {
			return in.atoiOpaque(s, 64, true)
		}
		if c, ok := concStr(s); ok {
			n, err := strconv.Atoi(c)
			return Tuple{in.Ctx.BV(64, uint64(n)), in.nativeErr(err)}
		}
		return fallThrough{}
	}
	intrinsics["strconv.ParseUint"] = func(in *Interp, fr *frame, call *ssa.CallCommon, args []Value) Value {
		s := args[0].(Str)
		base, bits := in.concInt(args[1], "base"), in.concInt(args[2], "bitSize")
		if s.Opq != nil {
			if base != 10 {
				in.unsupported("ParseUint base")
			}
			return in.atoiOpaque(s, bits, false)
		}
		if c, ok := concStr(s); ok {
			n, err := strconv.ParseUint(c, base, bits)
			return Tuple{in.Ctx.BV(64, n), in.nativeErr(err)}
		}
		return fallThrough{}
	}
	intrinsics["strconv.ParseInt"] = func(in *Interp, fr *frame, call *ssa.CallCommon, args []Value) Value {
		s := args[0].(Str)
		base, bits := in.concInt(args[1], "base"), in.concInt(args[2], "bitSize")
		if s.Opq != nil {
			if base != 10 {
				in.unsupported("ParseInt base")
			}
			return in.atoiOpaque(s, bits, true)
		}
		if c, ok := concStr(s); ok {
			n, err := strconv.ParseInt(c, base, bits)
			return Tuple{in.Ctx.BV(64, uint64(n)), in.nativeErr(err)}
		}
		return fallThrough{}
	}
	intrinsics["net/http.StatusText"] = func(in *Interp, fr *frame, call *ssa.CallCommon, args []Value) Value {
		t := term(args[0])
		if !t.IsConst() {
			in.unsupported("StatusText(symbolic)")
		}
		return Str{S: http.StatusText(int(t.Int()))}
	}
	intrinsics["fmt.Sprintf"] = func(in *Interp, fr *frame, call *ssa.CallCommon, args []Value) Value {
		in.noteModel("fmt.Sprintf")
		return in.sprintf(in.mustConcStr(args[0], "format"), args[1].(Slice))
	}
	intrinsics["fmt.Sprint"] = func(in *Interp, fr *frame, call *ssa.CallCommon, args []Value) Value {
		in.noteModel("fmt.Sprint")
		s := args[0].(Slice)
		if s.Len == 1 {
			return in.sprintf("%v", s)
		}
		return Str{Opq: &Opaque{What: "fmt.Sprint of several operands"}}
	}
	intrinsics["fmt.Appendf"] = func(in *Interp, fr *frame, call *ssa.CallCommon, args []Value) Value {
		in.noteModel("fmt.Appendf")
		r := in.sprintf(in.mustConcStr(args[1], "format"), args[2].(Slice))
		if r.Opq != nil {
			in.unsupported("fmt.Appendf producing opaque text (%s)", r.Opq.What)
		}
		b := args[0].(Slice)
		if b.JSON != nil {
			in.unsupported("fmt.Appendf onto JSON text")
		}
		back := make([]Value, 0, b.Len+r.Len())
		back = append(back, b.Back[:b.Len]...)
		for _, t := range in.strBytes(r) {
			back = append(back, t)
		}
		return Slice{Back: back, Len: len(back)}
	}
	intrinsics["fmt.Errorf"] = func(in *Interp, fr *frame, call *ssa.CallCommon, args []Value) Value {
		in.noteModel("fmt.Errorf")
		msg := in.sprintf(in.mustConcStr(args[0], "format"), args[1].(Slice))
		return in.newError(msg)
	}
	cmpBytes := func(in *Interp, fr *frame, call *ssa.CallCommon, args []Value) Value {
		a, b := in.bytesAsStr(args[0]), in.bytesAsStr(args[1])
		c := in.Ctx
		lt, eq := in.strLt(a, b), in.strEq(a, b)
		return c.Ite(lt, c.BV(64, ^uint64(0)), c.Ite(eq, c.BV(64, 0), c.BV(64, 1)))
	}
	intrinsics["bytes.Compare"] = cmpBytes
	intrinsics["internal/bytealg.Compare"] = cmpBytes
	intrinsics["strings.Compare"] = cmpBytes
	intrinsics["internal/bytealg.CompareString"] = cmpBytes
	eqBytes := func(in *Interp, fr *frame, call *ssa.CallCommon, args []Value) Value {
		return in.strEq(in.bytesAsStr(args[0]), in.bytesAsStr(args[1]))
	}
	intrinsics["bytes.Equal"] = eqBytes
	intrinsics["internal/bytealg.Equal"] = eqBytes
	// math functions on concrete floats (floats are never symbolic in this engine)
	for name, f := range map[string]func(float64) float64{"math.Trunc": math.Trunc, "math.Floor": math.Floor, "math.Ceil": math.Ceil, "math.Abs": math.Abs, "math.Round": math.Round, "math.Sqrt": math.Sqrt} {
		fn := f
		nm := name
		intrinsics[nm] = func(in *Interp, fr *frame, call *ssa.CallCommon, args []Value) Value {
			if nb, isBox := args[0].(JNumBox); isBox && nb.N.Kind == JNumVal && nm != "math.Abs" && nm != "math.Sqrt" {
				return nb // a symbolic decoded integer is its own integral part
			}
			x, ok := args[0].(float64)
			if !ok {
				in.unsupported("%s of a number that is not a concrete float", nm)
			}
			return fn(x)
		}
	}
	intrinsics["math.IsNaN"] = func(in *Interp, fr *frame, call *ssa.CallCommon, args []Value) Value {
		x, ok := args[0].(float64)
		if !ok {
			in.unsupported("math.IsNaN of a number that is not a concrete float")
		}
		return in.Ctx.Bool(math.IsNaN(x))
	}
	intrinsics["math.IsInf"] = func(in *Interp, fr *frame, call *ssa.CallCommon, args []Value) Value {
		x, ok := args[0].(float64)
		if !ok || !term(args[1]).IsConst() {
			in.unsupported("math.IsInf of a number that is not a concrete float")
		}
		return in.Ctx.Bool(math.IsInf(x, int(term(args[1]).Int())))
	}
	intrinsics["math/bits.Mul64"] = func(in *Interp, fr *frame, call *ssa.CallCommon, args []Value) Value {
		a, b := term(args[0]), term(args[1])
		return Tuple{in.Ctx.Bin(sym.OpMulHi, a, b), in.Ctx.Bin(sym.OpMul, a, b)}
	}
}

// nativeErr turns a native error into an interpreted error value.
func (in *Interp) nativeErr(err error) Value {
	if err == nil {
		return Iface{}
	}
	return in.newError(Str{S: err.Error()})
}

func (in *Interp) errorStringType() types.Type {
	pkg := in.P.Prog.ImportedPackage("errors")
	if pkg == nil {
		in.unsupported("package errors not loaded")
	}
	return types.NewPointer(pkg.Type("errorString").Type())
}

func (in *Interp) newError(msg Str) Value {
	cell := new(Value)
	*cell = Struct{msg}
	return Iface{T: in.errorStringType(), V: cell}
}

// atoiOpaque applies the documented contract of strconv.Atoi/ParseInt/ParseUint to the
// text of an abstract JSON number leaf that carries a value (see json.go).
func (in *Interp) atoiOpaque(s Str, bits int, signed bool) Value {
	if s.Opq.JSON == nil {
		in.unsupported("number parsing of opaque text (%s)", s.Opq.What)
	}
	return in.jsonParseNumber(s.Opq.JSON, bits, signed)
}

// modelSplit models strings.Split for a concrete separator of length 1 (or a concrete
// subject): the result shape is decided byte by byte.
func modelSplit(in *Interp, fr *frame, call *ssa.CallCommon, args []Value) Value {
	s, sep := args[0].(Str), args[1].(Str)
	mk := func(parts []Str) Value {
		back := make([]Value, len(parts))
		for i := range parts {
			back[i] = parts[i]
		}
		return Slice{Back: back, Len: len(back)}
	}
	if s.IsConc() && sep.IsConc() {
		ps := strings.Split(s.S, sep.S)
		parts := make([]Str, len(ps))
		for i := range ps {
			parts[i] = Str{S: ps[i]}
		}
		return mk(parts)
	}
	if !sep.IsConc() || len(sep.S) != 1 {
		in.unsupported("strings.Split with symbolic or multi-byte separator")
	}
	in.noteModel("strings.Split")
	sb := in.Ctx.BV(8, uint64(sep.S[0]))
	var parts []Str
	start := 0
	n := s.Len()
	for i := 0; i < n; i++ {
		if in.Path.Branch(in.Ctx.Eq(in.strAt(s, i), sb)) {
			parts = append(parts, in.substr(s, start, i))
			start = i + 1
		}
	}
	parts = append(parts, in.substr(s, start, n))
	return mk(parts)
}

func (in *Interp) substr(s Str, lo, hi int) Str {
	if s.B != nil {
		return in.mkStr(s.B[lo:hi])
	}
	return Str{S: s.S[lo:hi]}
}

// symSortStrings sorts a []string with symbolic content: insertion sort, exactly what
// slices.Sort/pdqsort does for n <= 12; each comparison is a decision.
func (in *Interp) symSortStrings(s Slice) Value {
	if s.Len > 12 {
		in.unsupported("sort.Strings of more than 12 symbolic strings")
	}
	in.noteModel("sort.Strings(insertion sort, n<=12)")
	for i := 1; i < s.Len; i++ {
		for j := i; j > 0; j-- {
			lt := in.strLt(s.Back[j].(Str), s.Back[j-1].(Str))
			if !in.Path.Branch(lt) {
				break
			}
			in.checkWrite(&s.Back[j])
			in.checkWrite(&s.Back[j-1])
			s.Back[j], s.Back[j-1] = s.Back[j-1], s.Back[j]
		}
	}
	return nil
}

// modelSortSlice: sort.Slice(x, less) = insertion sort for n <= 12 (what pdqsort_func does),
// with the swapper acting on the slice's cells.
func modelSortSlice(in *Interp, fr *frame, call *ssa.CallCommon, args []Value) Value {
	x := args[0].(Iface)
	s, ok := x.V.(Slice)
	if !ok {
		in.goPanic("sort.Slice: not a slice")
	}
	if s.Len > 12 {
		// above 12 elements the library's own pattern-defeating quicksort runs (from its SSA),
		// over the comparator given and a swapper of the model slice; only reflectlite's part
		// (length, element swapper) is modelled
		in.noteModel("sort.Slice(n>12: sort.pdqsort_func executed from source over a modelled swapper)")
		sp := in.P.Prog.ImportedPackage("sort")
		if sp == nil || sp.Func("pdqsort_func") == nil {
			in.unsupported("sort.Slice of more than 12 elements (pdqsort_func not found)")
		}
		var swap Intrinsic = func(in *Interp, fr *frame, call *ssa.CallCommon, a []Value) Value {
			i, j := term(a[0]), term(a[1])
			if !i.IsConst() || !j.IsConst() {
				in.unsupported("sort.Slice: symbolic swap index")
			}
			x, y := int(i.Val), int(j.Val)
			in.checkWrite(&s.Back[x])
			in.checkWrite(&s.Back[y])
			s.Back[x], s.Back[y] = s.Back[y], s.Back[x]
			return nil
		}
		limit := bits.Len(uint(s.Len))
		in.callFn(fr, sp.Func("pdqsort_func"), nil, []Value{Struct{args[1], swap}, in.Ctx.BV(64, 0), in.Ctx.BV(64, uint64(s.Len)), in.Ctx.BV(64, uint64(limit))}, nil)
		return nil
	}
	in.noteModel("sort.Slice(insertion sort, n<=12)")
	less := args[1]
	for i := 1; i < s.Len; i++ {
		for j := i; j > 0; j-- {
			r := in.call(fr, less, nil, []Value{in.Ctx.BV(64, uint64(j)), in.Ctx.BV(64, uint64(j-1))})
			if !in.Path.Branch(term(r)) {
				break
			}
			in.checkWrite(&s.Back[j])
			in.checkWrite(&s.Back[j-1])
			s.Back[j], s.Back[j-1] = s.Back[j-1], s.Back[j]
		}
	}
	return nil
}

// sprintf models fmt.Sprintf for the verbs the library uses.
func (in *Interp) sprintf(format string, args Slice) Str {
	var out Str
	ai := 0
	lit := func(s string) { out = in.strConcat(out, Str{S: s}) }
	for i := 0; i < len(format); i++ {
		ch := format[i]
		if ch != '%' {
			lit(string(ch))
			continue
		}
		i++
		if i >= len(format) {
			lit("%!(NOVERB)")
			break
		}
		verb := format[i]
		if verb == '%' {
			lit("%")
			continue
		}
		if ai >= args.Len {
			lit("%!" + string(verb) + "(MISSING)")
			continue
		}
		a := args.Back[ai].(Iface)
		ai++
		out = in.strConcat(out, in.fmtVerb(verb, a))
	}
	return out
}

func (in *Interp) fmtVerb(verb byte, a Iface) Str {
	opq := func(what string, nn bool) Str { return Str{Opq: &Opaque{What: what, NotNilWord: nn}} }
	if verb == 'T' {
		if a.T == nil {
			return Str{S: "<nil>"}
		}
		return Str{S: typeString(a.T)}
	}
	if a.T == nil {
		if verb == 'v' || verb == 's' || verb == 'd' || verb == 'q' {
			if verb == 'v' {
				return Str{S: "<nil>"}
			}
			return Str{S: "%!" + string(verb) + "(<nil>)"}
		}
	}
	// error / Stringer values
	if verb == 'v' || verb == 's' || verb == 'q' {
		if a.T != nil {
			if _, isIface := a.T.Underlying().(*types.Interface); !isIface {
				ms := in.P.Prog.MethodSets.MethodSet(a.T)
				if sel := ms.Lookup(nil, "Error"); sel != nil {
					if p, ok := a.V.(*Value); ok && p == nil {
						return Str{S: "<nil>"}
					}
					f := in.P.Prog.MethodValue(sel)
					r := in.callFn(nil, f, nil, []Value{a.V}, nil)
					if s, ok := r.(Str); ok && verb != 'q' {
						return s
					}
					return opq("formatted error", false)
				}
				if sel := ms.Lookup(nil, "String"); sel != nil {
					if p, ok := a.V.(*Value); ok && p == nil {
						return Str{S: "<nil>"}
					}
					f := in.P.Prog.MethodValue(sel)
					r := in.callFn(nil, f, nil, []Value{a.V}, nil)
					if s, ok := r.(Str); ok && verb != 'q' {
						return s
					}
					return opq("formatted Stringer", false)
				}
			}
		}
	}
	switch v := a.V.(type) {
	case Str:
		switch verb {
		case 'v', 's':
			return v
		case 'q':
			if v.IsConc() {
				return Str{S: strconv.Quote(v.S)}
			}
			if (in.renderJSON || in.renderQuote) && v.Opq == nil {
				return in.goQuote(v)
			}
			return opq("quoted symbolic string", true)
		}
	case *sym.Term:
		if v.IsConst() {
			w, signed, _ := intInfo(a.T)
			if w == 0 {
				return Str{S: fmt.Sprint(v.Val == 1)}
			}
			if verb == 'v' || verb == 'd' {
				if signed {
					return Str{S: strconv.FormatInt(v.Int(), 10)}
				}
				return Str{S: strconv.FormatUint(v.Val, 10)}
			}
		}
		if w, signed, ok := intInfo(a.T); ok && w > 0 && (verb == 'v' || verb == 'd') && in.renderInts {
			return in.decimalOf(v, signed)
		}
		return opq("formatted symbolic scalar", true)
	case *Value:
		if v == nil {
			return Str{S: "<nil>"}
		}
		// the text of a non-nil pointer: "0x..." (at least three bytes), equal to the text
		// of another pointer exactly when the pointers are the same
		return Str{Opq: &Opaque{What: "formatted pointer", NotNilWord: true, Ptr: v}}
	case Slice:
		return opq("formatted slice", true)
	case Struct:
		return opq("formatted struct", true)
	case *Map:
		return opq("formatted map", true)
	case float64:
		return opq("formatted float", true)
	}
	return opq(fmt.Sprintf("fmt verb %%%c of %T", verb, a.V), false)
}

// canonValue renders an observed value under a model (must match the native runtime's canon()).
func canonValue(v Value, ev func(*sym.Term) uint64) string {
	switch v := v.(type) {
	case nil:
		return "nil"
	case *sym.Term:
		if v.W == 0 {
			return fmt.Sprint(ev(v) == 1)
		}
		return fmt.Sprintf("w%d:%d", v.W, ev(v))
	case Str:
		if v.Opq != nil {
			return "opaque"
		}
		if v.B == nil {
			return "s:" + hexOf([]byte(v.S))
		}
		b := make([]byte, len(v.B))
		for i, t := range v.B {
			b[i] = byte(ev(t))
		}
		return "s:" + hexOf(b)
	case Slice:
		if v.JSON != nil {
			return "json"
		}
		var parts []string
		allBytes := true
		for i := 0; i < v.Len; i++ {
			if t, ok := v.Back[i].(*sym.Term); !ok || t.W != 8 {
				allBytes = false
			}
		}
		if allBytes {
			b := make([]byte, v.Len)
			for i := 0; i < v.Len; i++ {
				b[i] = byte(ev(v.Back[i].(*sym.Term)))
			}
			return "b:" + hexOf(b)
		}
		for i := 0; i < v.Len; i++ {
			parts = append(parts, canonValue(v.Back[i], ev))
		}
		return "[" + strings.Join(parts, ",") + "]"
	case Iface:
		if v.T == nil {
			return "nil"
		}
		return canonValue(v.V, ev)
	case *Value:
		if v == nil {
			return "ptr:nil"
		}
		return "ptr:" + canonValue(*v, ev)
	case Struct:
		var parts []string
		for _, f := range v {
			parts = append(parts, canonValue(f, ev))
		}
		return "{" + strings.Join(parts, ",") + "}"
	}
	return fmt.Sprintf("?%T", v)
}

func hexOf(b []byte) string {
	const d = "0123456789abcdef"
	out := make([]byte, 0, 2*len(b))
	for _, c := range b {
		out = append(out, d[c>>4], d[c&15])
	}
	return string(out)
}

// bytesAsStr views a []byte (or string) value as a Str.
func (in *Interp) bytesAsStr(v Value) Str {
	switch x := v.(type) {
	case Str:
		return x
	case Slice:
		if x.JSON != nil {
			in.unsupported("byte comparison on JSON text")
		}
		bs := make([]*sym.Term, x.Len)
		for i := 0; i < x.Len; i++ {
			bs[i] = term(x.Back[i])
		}
		return in.mkStr(bs)
	}
	in.unsupported("bytesAsStr of %T", v)
	return Str{}
}

// goQuote models strconv.Quote / fmt's %q on a string of symbolic ASCII bytes: the escape
// class of every byte is decided (Go syntax: \a \b \f \n \r \t \v \\ \" \xNN).
func (in *Interp) goQuote(s Str) Str {
	c := in.Ctx
	in.noteModel("Go string quoting (%q) of symbolic bytes (escape classes decided per byte, ASCII)")
	lit := func(x string) []*sym.Term {
		out := make([]*sym.Term, len(x))
		for i := range out {
			out[i] = c.BV(8, uint64(x[i]))
		}
		return out
	}
	out := lit("\"")
	for i := 0; i < s.Len(); i++ {
		b := in.strAt(s, i)
		done := false
		for _, e := range []struct {
			ch  byte
			enc string
		}{{'"', "\\\""}, {'\\', "\\\\"}, {'\a', "\\a"}, {'\b', "\\b"}, {'\f', "\\f"}, {'\n', "\\n"}, {'\r', "\\r"}, {'\t', "\\t"}, {'\v', "\\v"}} {
			if in.Path.Branch(c.Eq(b, c.BV(8, uint64(e.ch)))) {
				out = append(out, lit(e.enc)...)
				done = true
				break
			}
		}
		if done {
			continue
		}
		if in.Path.Branch(c.Cmp(sym.OpUle, c.BV(8, 0x80), b)) {
			in.unsupported("non-ASCII byte in a quoted string (outside the stated bound)")
		}
		if in.Path.Branch(c.Or(c.Cmp(sym.OpUlt, b, c.BV(8, 0x20)), c.Eq(b, c.BV(8, 0x7f)))) {
			out = append(out, lit("\\x")...)
			hex := func(n *sym.Term) *sym.Term {
				return c.Ite(c.Cmp(sym.OpUlt, n, c.BV(8, 10)), c.Bin(sym.OpAdd, n, c.BV(8, '0')), c.Bin(sym.OpAdd, n, c.BV(8, 'a'-10)))
			}
			out = append(out, hex(c.Bin(sym.OpLShr, b, c.BV(8, 4))), hex(c.Bin(sym.OpBAnd, b, c.BV(8, 15))))
			continue
		}
		out = append(out, b)
	}
	return in.mkStr(append(out, lit("\"")...))
}

package exec

import (
	"math/bits"

	"vsym/sym"
)

// A small unsigned-interval domain over terms, driven by the comparison literals of the path
// condition. It is used only to decide comparisons without calling the solver (sound: an
// answer is given only when the interval proves it).

type ival struct{ lo, hi uint64 }

func maskW(w int) uint64 {
	if w >= 64 {
		return ^uint64(0)
	}
	return (uint64(1) << uint(w)) - 1
}

func (p *Path) full(t *sym.Term) ival { return ival{0, maskW(t.W)} }

func (p *Path) refine(t *sym.Term, lo, hi uint64) {
	if t.IsConst() {
		return
	}
	if p.tb == nil {
		p.tb = map[*sym.Term]ival{}
	}
	cur, ok := p.tb[t]
	if !ok {
		cur = p.full(t)
	}
	if lo > cur.lo {
		cur.lo = lo
	}
	if hi < cur.hi {
		cur.hi = hi
	}
	p.tb[t] = cur
	p.bmemo = nil
}

// learnBound extracts interval facts from a comparison literal with value val.
func (p *Path) learnBound(t *sym.Term, val bool) {
	switch t.Op {
	case sym.OpUlt, sym.OpUle:
		a, b := t.Args[0], t.Args[1]
		strict := t.Op == sym.OpUlt
		if !val {
			// not (a < b) == b <= a ; not (a <= b) == b < a
			a, b = b, a
			strict = !strict
		}
		// now: a < b (strict) or a <= b
		if b.IsConst() {
			hi := b.Val
			if strict {
				if hi == 0 {
					return
				}
				hi--
			}
			p.refine(a, 0, hi)
		}
		if a.IsConst() {
			lo := a.Val
			if strict {
				if lo == maskW(a.W) {
					return
				}
				lo++
			}
			p.refine(b, lo, maskW(b.W))
		}
	case sym.OpEq:
		if val && t.Args[0].W > 0 {
			a, b := t.Args[0], t.Args[1]
			if b.IsConst() {
				p.refine(a, b.Val, b.Val)
			} else if a.IsConst() {
				p.refine(b, a.Val, a.Val)
			}
		}
	}
}

func (p *Path) bounds(t *sym.Term) ival {
	if t.IsConst() {
		return ival{t.Val, t.Val}
	}
	if t.W == 0 {
		return ival{0, 1}
	}
	if p.bmemo == nil {
		p.bmemo = map[*sym.Term]ival{}
	}
	if r, ok := p.bmemo[t]; ok {
		return r
	}
	r := p.structBounds(t)
	if l, ok := p.tb[t]; ok {
		if l.lo > r.lo {
			r.lo = l.lo
		}
		if l.hi < r.hi {
			r.hi = l.hi
		}
	}
	p.bmemo[t] = r
	return r
}

func (p *Path) structBounds(t *sym.Term) ival {
	m := maskW(t.W)
	full := ival{0, m}
	switch t.Op {
	case sym.OpZExt:
		return p.bounds(t.Args[0])
	case sym.OpSExt:
		a := p.bounds(t.Args[0])
		if a.hi < uint64(1)<<uint(t.Args[0].W-1) {
			return a
		}
	case sym.OpExtract:
		if t.Val == 0 {
			a := p.bounds(t.Args[0])
			if a.hi <= m {
				return a
			}
		}
	case sym.OpAdd:
		a, b := p.bounds(t.Args[0]), p.bounds(t.Args[1])
		hi, c := bits.Add64(a.hi, b.hi, 0)
		if c == 0 && hi <= m {
			return ival{a.lo + b.lo, hi}
		}
	case sym.OpMul:
		a, b := p.bounds(t.Args[0]), p.bounds(t.Args[1])
		h, l := bits.Mul64(a.hi, b.hi)
		if h == 0 && l <= m {
			return ival{a.lo * b.lo, l}
		}
	case sym.OpSub:
		a, b := p.bounds(t.Args[0]), p.bounds(t.Args[1])
		if a.lo >= b.hi {
			return ival{a.lo - b.hi, a.hi - b.lo}
		}
	case sym.OpBAnd:
		a, b := p.bounds(t.Args[0]), p.bounds(t.Args[1])
		hi := a.hi
		if b.hi < hi {
			hi = b.hi
		}
		return ival{0, hi}
	case sym.OpURem:
		b := p.bounds(t.Args[1])
		if b.lo > 0 {
			return ival{0, b.hi - 1}
		}
	case sym.OpUDiv:
		a, b := p.bounds(t.Args[0]), p.bounds(t.Args[1])
		if b.lo > 0 {
			return ival{a.lo / b.hi, a.hi / b.lo}
		}
	case sym.OpLShr:
		a, b := p.bounds(t.Args[0]), p.bounds(t.Args[1])
		if b.lo == b.hi && b.lo < 64 {
			return ival{a.lo >> b.lo, a.hi >> b.lo}
		}
	case sym.OpIte:
		a, b := p.bounds(t.Args[1]), p.bounds(t.Args[2])
		lo, hi := a.lo, a.hi
		if b.lo < lo {
			lo = b.lo
		}
		if b.hi > hi {
			hi = b.hi
		}
		return ival{lo, hi}
	}
	return full
}

// decideCmp tries to decide a comparison by intervals. ok=false: undecided.
func (p *Path) decideCmp(t *sym.Term) (val bool, ok bool) {
	switch t.Op {
	case sym.OpUlt, sym.OpUle, sym.OpSlt, sym.OpSle:
		a, b := p.bounds(t.Args[0]), p.bounds(t.Args[1])
		w := t.Args[0].W
		if t.Op == sym.OpSlt || t.Op == sym.OpSle {
			half := uint64(1) << uint(w-1)
			if a.hi >= half || b.hi >= half {
				return false, false // may be negative: no unsigned reasoning
			}
		}
		strict := t.Op == sym.OpUlt || t.Op == sym.OpSlt
		if strict {
			if a.hi < b.lo {
				return true, true
			}
			if a.lo >= b.hi {
				return false, true
			}
			// overflow test idiom: (x+y) < x is false when x+y cannot wrap
			if t.Args[0].Op == sym.OpAdd && (t.Args[0].Args[0] == t.Args[1] || t.Args[0].Args[1] == t.Args[1]) {
				x, y := p.bounds(t.Args[0].Args[0]), p.bounds(t.Args[0].Args[1])
				s, c := bits.Add64(x.hi, y.hi, 0)
				if c == 0 && s <= maskW(w) {
					return false, true
				}
			}
		} else {
			if a.hi <= b.lo {
				return true, true
			}
			if a.lo > b.hi {
				return false, true
			}
		}
	case sym.OpEq:
		if t.Args[0].W > 0 {
			a, b := p.bounds(t.Args[0]), p.bounds(t.Args[1])
			if a.hi < b.lo || b.hi < a.lo {
				return false, true
			}
			if a.lo == a.hi && b.lo == b.hi && a.lo == b.lo {
				return true, true
			}
		}
	}
	return false, false
}

package exec

import (
	"go/types"

	"golang.org/x/tools/go/ssa"
)

// Models of sync.Pool and sync.Map (both are built on runtime internals that cannot be
// executed). A path is one goroutine, so:
//   - a Pool is a LIFO free list: Get returns the value Put last, or calls New (nil without);
//   - a Map is a map keyed by interface values.
// The state lives in the Interp (one per path).

func structFieldIndex(t types.Type, name string) int {
	if p, ok := t.Underlying().(*types.Pointer); ok {
		t = p.Elem()
	}
	st, ok := t.Underlying().(*types.Struct)
	if !ok {
		return -1
	}
	for i := 0; i < st.NumFields(); i++ {
		if st.Field(i).Name() == name {
			return i
		}
	}
	return -1
}

func (in *Interp) syncMapOf(p *Value) *Map {
	if in.syncMaps == nil {
		in.syncMaps = map[*Value]*Map{}
	}
	m := in.syncMaps[p]
	if m == nil {
		any := types.NewInterfaceType(nil, nil)
		in.mapSeq++
		m = &Map{KeyT: any, ValT: any, ID: in.mapSeq}
		in.syncMaps[p] = m
	}
	return m
}

func init() {
	intrinsics["(*sync.Pool).Get"] = func(in *Interp, fr *frame, call *ssa.CallCommon, args []Value) Value {
		p := args[0].(*Value)
		in.noteModel("sync.Pool (one goroutine: LIFO free list, New when empty)")
		if st := in.pools[p]; len(st) > 0 {
			v := st[len(st)-1]
			in.pools[p] = st[:len(st)-1]
			return v
		}
		sv, ok := in.load(p).(Struct)
		idx := structFieldIndex(call.Args[0].Type(), "New")
		if !ok || idx < 0 || idx >= len(sv) || isNilFunc(sv[idx]) {
			return Iface{}
		}
		return in.call(fr, sv[idx], nil, nil)
	}
	intrinsics["(*sync.Pool).Put"] = func(in *Interp, fr *frame, call *ssa.CallCommon, args []Value) Value {
		p := args[0].(*Value)
		if in.pools == nil {
			in.pools = map[*Value][]Value{}
		}
		if iv, ok := args[1].(Iface); ok && iv.T == nil {
			return nil // Put(nil) is ignored
		}
		in.pools[p] = append(in.pools[p], args[1])
		return nil
	}

	intrinsics["(*sync.Map).Load"] = func(in *Interp, fr *frame, call *ssa.CallCommon, args []Value) Value {
		in.noteModel("sync.Map (one goroutine: a map keyed by interface values)")
		m := in.syncMapOf(args[0].(*Value))
		if e := in.mapFind(m, args[1]); e != nil {
			return Tuple{e.V, in.Ctx.T}
		}
		return Tuple{Iface{}, in.Ctx.F}
	}
	intrinsics["(*sync.Map).Store"] = func(in *Interp, fr *frame, call *ssa.CallCommon, args []Value) Value {
		in.noteModel("sync.Map (one goroutine: a map keyed by interface values)")
		in.mapUpdate(in.syncMapOf(args[0].(*Value)), args[1], args[2])
		return nil
	}
	intrinsics["(*sync.Map).LoadOrStore"] = func(in *Interp, fr *frame, call *ssa.CallCommon, args []Value) Value {
		in.noteModel("sync.Map (one goroutine: a map keyed by interface values)")
		m := in.syncMapOf(args[0].(*Value))
		if e := in.mapFind(m, args[1]); e != nil {
			return Tuple{e.V, in.Ctx.T}
		}
		m.Entries = append(m.Entries, &MapEntry{K: args[1], V: copyVal(args[2])})
		return Tuple{args[2], in.Ctx.F}
	}
	intrinsics["(*sync.Map).LoadAndDelete"] = func(in *Interp, fr *frame, call *ssa.CallCommon, args []Value) Value {
		m := in.syncMapOf(args[0].(*Value))
		if e := in.mapFind(m, args[1]); e != nil {
			v := e.V
			in.mapDelete(m, args[1])
			return Tuple{v, in.Ctx.T}
		}
		return Tuple{Iface{}, in.Ctx.F}
	}
	intrinsics["(*sync.Map).Delete"] = func(in *Interp, fr *frame, call *ssa.CallCommon, args []Value) Value {
		in.mapDelete(in.syncMapOf(args[0].(*Value)), args[1])
		return nil
	}
	intrinsics["(*sync.Map).Range"] = func(in *Interp, fr *frame, call *ssa.CallCommon, args []Value) Value {
		m := in.syncMapOf(args[0].(*Value))
		for _, e := range append([]*MapEntry{}, m.Entries...) {
			if e.Deleted {
				continue
			}
			r := in.call(fr, args[1], nil, []Value{e.K, e.V})
			if !in.Path.Branch(term(r)) {
				break
			}
		}
		return nil
	}
	// one goroutine per path: locks and once-guards need no state beyond Once's flag
	for _, n := range []string{"(*sync.Mutex).Lock", "(*sync.Mutex).Unlock", "(*sync.RWMutex).Lock", "(*sync.RWMutex).Unlock", "(*sync.RWMutex).RLock", "(*sync.RWMutex).RUnlock"} {
		intrinsics[n] = func(in *Interp, fr *frame, call *ssa.CallCommon, args []Value) Value { return nil }
	}
	intrinsics["(*sync.Once).Do"] = func(in *Interp, fr *frame, call *ssa.CallCommon, args []Value) Value {
		p := args[0].(*Value)
		if in.onces == nil {
			in.onces = map[*Value]bool{}
		}
		if in.onces[p] {
			return nil
		}
		in.onces[p] = true
		in.call(fr, args[1], nil, nil)
		return nil
	}
}

package exec

import (
	"go/types"

	"vsym/sym"
)

// deepEq builds the term reflect.DeepEqual(a, b) for values of static type t.
func (in *Interp) deepEq(t types.Type, a, b Value, seen map[[2]*Value]bool) *sym.Term {
	c := in.Ctx
	switch tt := t.Underlying().(type) {
	case *types.Basic:
		return in.equal(t, a, b)
	case *types.Interface:
		ai, bi := a.(Iface), b.(Iface)
		if ai.T == nil || bi.T == nil {
			return c.Bool(ai.T == nil && bi.T == nil)
		}
		if !types.Identical(ai.T, bi.T) {
			return c.F
		}
		return in.deepEq(ai.T, ai.V, bi.V, seen)
	case *types.Pointer:
		ap, bp := a.(*Value), b.(*Value)
		if ap == nil || bp == nil {
			return c.Bool(ap == nil && bp == nil)
		}
		if ap == bp {
			return c.T
		}
		k := [2]*Value{ap, bp}
		if seen[k] {
			return c.T
		}
		seen[k] = true
		return in.deepEq(tt.Elem(), *ap, *bp, seen)
	case *types.Struct:
		as, bs := a.(Struct), b.(Struct)
		r := c.T
		for i := range as {
			r = c.And(r, in.deepEq(tt.Field(i).Type(), as[i], bs[i], seen))
			if r.IsFalse() {
				return r
			}
		}
		return r
	case *types.Array:
		as, bs := a.(Array), b.(Array)
		r := c.T
		for i := range as {
			r = c.And(r, in.deepEq(tt.Elem(), as[i], bs[i], seen))
		}
		return r
	case *types.Slice:
		as, bs := a.(Slice), b.(Slice)
		if as.JSON != nil || bs.JSON != nil {
			if as.JSON != nil && bs.JSON != nil {
				return in.jsonEqual(as.JSON, bs.JSON)
			}
			in.unsupported("DeepEqual between JSON text and bytes")
		}
		an, bn := as.Back == nil, bs.Back == nil
		if an != bn {
			return c.F
		}
		if as.Len != bs.Len {
			return c.F
		}
		r := c.T
		for i := 0; i < as.Len; i++ {
			r = c.And(r, in.deepEq(tt.Elem(), as.Back[i], bs.Back[i], seen))
			if r.IsFalse() {
				return r
			}
		}
		return r
	case *types.Map:
		am, bm := a.(*Map), b.(*Map)
		if am == nil || bm == nil {
			return c.Bool(am == nil && bm == nil)
		}
		if am == bm {
			return c.T
		}
		if len(am.Entries) != len(bm.Entries) {
			return c.F
		}
		r := c.T
		for _, ea := range am.Entries {
			any := c.F
			for _, eb := range bm.Entries {
				k := in.keyEq(tt.Key(), ea.K, eb.K)
				if k.IsFalse() {
					continue
				}
				any = c.Or(any, c.And(k, in.deepEq(tt.Elem(), ea.V, eb.V, seen)))
			}
			r = c.And(r, any)
			if r.IsFalse() {
				return r
			}
		}
		return r
	case *types.Signature:
		return c.Bool(isNilFunc(a) && isNilFunc(b))
	}
	in.unsupported("DeepEqual on %s", t)
	return nil
}

// snapshot deep-copies a heap graph.
func (in *Interp) snapshot(v Value, cells map[*Value]*Value, maps map[*Map]*Map) Value {
	switch v := v.(type) {
	case Struct:
		c := make(Struct, len(v))
		for i := range v {
			c[i] = in.snapshot(v[i], cells, maps)
		}
		return c
	case Array:
		c := make(Array, len(v))
		for i := range v {
			c[i] = in.snapshot(v[i], cells, maps)
		}
		return c
	case Tuple:
		c := make(Tuple, len(v))
		for i := range v {
			c[i] = in.snapshot(v[i], cells, maps)
		}
		return c
	case Slice:
		if v.Back == nil {
			return v
		}
		back := make([]Value, len(v.Back))
		for i := range v.Back {
			back[i] = in.snapshot(v.Back[i], cells, maps)
		}
		return Slice{Back: back, Len: v.Len}
	case Iface:
		return Iface{T: v.T, V: in.snapshot(v.V, cells, maps)}
	case *Value:
		if v == nil {
			return v
		}
		if c, ok := cells[v]; ok {
			return c
		}
		c := new(Value)
		cells[v] = c
		*c = in.snapshot(*v, cells, maps)
		return c
	case *Map:
		if v == nil {
			return v
		}
		if c, ok := maps[v]; ok {
			return c
		}
		in.mapSeq++
		c := &Map{KeyT: v.KeyT, ValT: v.ValT, ID: in.mapSeq}
		maps[v] = c
		for _, e := range v.Entries {
			c.Entries = append(c.Entries, &MapEntry{K: in.snapshot(e.K, cells, maps), V: in.snapshot(e.V, cells, maps)})
		}
		return c
	}
	return v
}

// freezeValue marks every cell and map reachable from v as shared (C12).
func (in *Interp) freezeValue(v Value, seen map[*Value]bool) {
	switch v := v.(type) {
	case Struct:
		for i := range v {
			in.frozen[&v[i]] = true
			in.freezeValue(v[i], seen)
		}
	case Array:
		for i := range v {
			in.frozen[&v[i]] = true
			in.freezeValue(v[i], seen)
		}
	case Slice:
		for i := range v.Back {
			in.frozen[&v.Back[i]] = true
			in.freezeValue(v.Back[i], seen)
		}
	case Iface:
		in.freezeValue(v.V, seen)
	case *Value:
		if v == nil || seen[v] {
			return
		}
		seen[v] = true
		in.frozen[v] = true
		in.freezeValue(*v, seen)
	case *Map:
		if v == nil || in.frozenMaps[v] {
			return
		}
		in.frozenMaps[v] = true
		for _, e := range v.Entries {
			in.freezeValue(e.K, seen)
			in.freezeValue(e.V, seen)
		}
	case *Closure:
		if v == nil {
			return
		}
		for _, e := range v.Env {
			in.freezeValue(e, seen)
		}
	}
}

// Package sym implements the term language of the symbolic executor: fixed-width
// bit-vector and boolean terms with hash-consing, constant folding, an evaluator
// (used to follow the current model and to predict native outcomes) and an
// SMT-LIB2 printer.
package sym

import (
	"fmt"
	"math/bits"
	"strings"
)

type Op uint8

const (
	OpConst Op = iota // W>0: bit-vector constant Val; W==0: bool constant (Val 0/1)
	OpVar
	OpNot // bool
	OpAnd
	OpOr
	OpIte // args: cond, a, b (a,b same sort)
	OpEq  // args same sort -> bool
	OpAdd
	OpSub
	OpMul
	OpUDiv
	OpURem
	OpSDiv
	OpSRem
	OpBAnd
	OpBOr
	OpBXor
	OpShl
	OpLShr
	OpAShr
	OpBNot
	OpNeg
	OpUlt
	OpUle
	OpSlt
	OpSle
	OpZExt    // to width W
	OpSExt    // to width W
	OpExtract // low W bits after shifting right by Val: args[0][Val+W-1:Val]
	OpMulHi   // high 64 bits of the 128-bit unsigned product (64-bit operands)
)

// Term is an immutable DAG node. W is the bit width (0 = Bool).
type Term struct {
	Op   Op
	W    int
	Val  uint64
	Name string
	Args []*Term
	ID   int
}

type key struct {
	op      Op
	w       int
	val     uint64
	name    string
	a, b, c int
}

// Ctx owns a hash-consing table. One Ctx per explored path.
type Ctx struct {
	tab  map[key]*Term
	next int
	Vars []*Term
	T, F *Term
}

func NewCtx() *Ctx {
	c := &Ctx{tab: map[key]*Term{}}
	c.T = c.mk(OpConst, 0, 1, "")
	c.F = c.mk(OpConst, 0, 0, "")
	return c
}

func (c *Ctx) mk(op Op, w int, val uint64, name string, args ...*Term) *Term {
	k := key{op: op, w: w, val: val, name: name, a: -1, b: -1, c: -1}
	if len(args) > 0 {
		k.a = args[0].ID
	}
	if len(args) > 1 {
		k.b = args[1].ID
	}
	if len(args) > 2 {
		k.c = args[2].ID
	}
	if t, ok := c.tab[k]; ok {
		return t
	}
	t := &Term{Op: op, W: w, Val: val, Name: name, Args: args, ID: c.next}
	c.next++
	c.tab[k] = t
	if op == OpVar {
		c.Vars = append(c.Vars, t)
	}
	return t
}

func mask(w int) uint64 {
	if w >= 64 {
		return ^uint64(0)
	}
	return (uint64(1) << uint(w)) - 1
}

func sext(v uint64, w int) int64 {
	if w >= 64 {
		return int64(v)
	}
	sh := uint(64 - w)
	return int64(v<<sh) >> sh
}

func (t *Term) IsConst() bool { return t.Op == OpConst }
func (t *Term) IsTrue() bool  { return t.Op == OpConst && t.W == 0 && t.Val == 1 }
func (t *Term) IsFalse() bool { return t.Op == OpConst && t.W == 0 && t.Val == 0 }

// Int returns the constant as a sign-extended int64.
func (t *Term) Int() int64 { return sext(t.Val, t.W) }

func (c *Ctx) Bool(b bool) *Term {
	if b {
		return c.T
	}
	return c.F
}

func (c *Ctx) BV(w int, v uint64) *Term { return c.mk(OpConst, w, v&mask(w), "") }

func (c *Ctx) Var(name string, w int) *Term { return c.mk(OpVar, w, 0, name) }

func (c *Ctx) Not(a *Term) *Term {
	if a.IsConst() {
		return c.Bool(a.Val == 0)
	}
	if a.Op == OpNot {
		return a.Args[0]
	}
	return c.mk(OpNot, 0, 0, "", a)
}

func (c *Ctx) And(a, b *Term) *Term {
	if a.IsFalse() || b.IsFalse() {
		return c.F
	}
	if a.IsTrue() {
		return b
	}
	if b.IsTrue() {
		return a
	}
	if a == b {
		return a
	}
	if a.ID > b.ID {
		a, b = b, a
	}
	return c.mk(OpAnd, 0, 0, "", a, b)
}

func (c *Ctx) Or(a, b *Term) *Term {
	if a.IsTrue() || b.IsTrue() {
		return c.T
	}
	if a.IsFalse() {
		return b
	}
	if b.IsFalse() {
		return a
	}
	if a == b {
		return a
	}
	if a.ID > b.ID {
		a, b = b, a
	}
	return c.mk(OpOr, 0, 0, "", a, b)
}

func (c *Ctx) Implies(a, b *Term) *Term { return c.Or(c.Not(a), b) }

func (c *Ctx) Ite(cond, a, b *Term) *Term {
	if cond.IsTrue() {
		return a
	}
	if cond.IsFalse() {
		return b
	}
	if a == b {
		return a
	}
	if a.W == 0 {
		// boolean ite -> connectives (keeps folding simple)
		return c.Or(c.And(cond, a), c.And(c.Not(cond), b))
	}
	return c.mk(OpIte, a.W, 0, "", cond, a, b)
}

func (c *Ctx) Eq(a, b *Term) *Term {
	if a.W != b.W {
		panic(fmt.Sprintf("sym.Eq: width mismatch %d vs %d", a.W, b.W))
	}
	if a == b {
		return c.T
	}
	if a.IsConst() && b.IsConst() {
		return c.Bool(a.Val == b.Val)
	}
	if a.W == 0 {
		// bool equality
		if a.IsConst() {
			if a.Val == 1 {
				return b
			}
			return c.Not(b)
		}
		if b.IsConst() {
			if b.Val == 1 {
				return a
			}
			return c.Not(a)
		}
	}
	if a.ID > b.ID {
		a, b = b, a
	}
	return c.mk(OpEq, 0, 0, "", a, b)
}

func (c *Ctx) Ne(a, b *Term) *Term { return c.Not(c.Eq(a, b)) }

func foldBin(op Op, w int, x, y uint64) (uint64, bool) {
	m := mask(w)
	switch op {
	case OpAdd:
		return (x + y) & m, true
	case OpSub:
		return (x - y) & m, true
	case OpMul:
		return (x * y) & m, true
	case OpUDiv:
		if y == 0 {
			return m, true
		}
		return x / y, true
	case OpURem:
		if y == 0 {
			return x, true
		}
		return x % y, true
	case OpSDiv:
		sx, sy := sext(x, w), sext(y, w)
		if sy == 0 {
			if sx >= 0 {
				return m, true
			}
			return 1, true
		}
		if sy == -1 {
			return uint64(-sx) & m, true
		}
		return uint64(sx/sy) & m, true
	case OpSRem:
		sx, sy := sext(x, w), sext(y, w)
		if sy == 0 {
			return x, true
		}
		if sy == -1 {
			return 0, true
		}
		return uint64(sx%sy) & m, true
	case OpBAnd:
		return x & y, true
	case OpBOr:
		return x | y, true
	case OpBXor:
		return x ^ y, true
	case OpShl:
		if y >= uint64(w) {
			return 0, true
		}
		return (x << y) & m, true
	case OpLShr:
		if y >= uint64(w) {
			return 0, true
		}
		return x >> y, true
	case OpAShr:
		sx := sext(x, w)
		if y >= uint64(w) {
			if sx < 0 {
				return m, true
			}
			return 0, true
		}
		return uint64(sx>>y) & m, true
	case OpMulHi:
		hi, _ := bits.Mul64(x, y)
		return hi, true
	}
	return 0, false
}

func (c *Ctx) Bin(op Op, a, b *Term) *Term {
	if a.W != b.W {
		panic(fmt.Sprintf("sym.Bin(%d): width mismatch %d vs %d", op, a.W, b.W))
	}
	w := a.W
	if a.IsConst() && b.IsConst() {
		v, ok := foldBin(op, w, a.Val, b.Val)
		if ok {
			return c.BV(w, v)
		}
	}
	switch op {
	case OpAdd:
		if a.IsConst() && a.Val == 0 {
			return b
		}
		if b.IsConst() && b.Val == 0 {
			return a
		}
		if a.IsConst() { // constant on the right, canonical
			a, b = b, a
		}
	case OpSub:
		if b.IsConst() && b.Val == 0 {
			return a
		}
		if a == b {
			return c.BV(w, 0)
		}
	case OpMul:
		if a.IsConst() {
			a, b = b, a
		}
		if b.IsConst() && b.Val == 1 {
			return a
		}
		if b.IsConst() && b.Val == 0 {
			return b
		}
	case OpBAnd:
		if a.IsConst() {
			a, b = b, a
		}
		if b.IsConst() && b.Val == 0 {
			return b
		}
		if b.IsConst() && b.Val == mask(w) {
			return a
		}
		if a == b {
			return a
		}
	case OpBOr, OpBXor:
		if a.IsConst() {
			a, b = b, a
		}
		if b.IsConst() && b.Val == 0 {
			return a
		}
	case OpShl, OpLShr, OpAShr:
		if b.IsConst() && b.Val == 0 {
			return a
		}
	}
	return c.mk(op, w, 0, "", a, b)
}

func (c *Ctx) Cmp(op Op, a, b *Term) *Term {
	if a.W != b.W {
		panic(fmt.Sprintf("sym.Cmp: width mismatch %d vs %d", a.W, b.W))
	}
	if a.IsConst() && b.IsConst() {
		switch op {
		case OpUlt:
			return c.Bool(a.Val < b.Val)
		case OpUle:
			return c.Bool(a.Val <= b.Val)
		case OpSlt:
			return c.Bool(a.Int() < b.Int())
		case OpSle:
			return c.Bool(a.Int() <= b.Int())
		}
	}
	if a == b {
		return c.Bool(op == OpUle || op == OpSle)
	}
	return c.mk(op, 0, 0, "", a, b)
}

func (c *Ctx) BNot(a *Term) *Term {
	if a.IsConst() {
		return c.BV(a.W, ^a.Val)
	}
	return c.mk(OpBNot, a.W, 0, "", a)
}

func (c *Ctx) Neg(a *Term) *Term {
	if a.IsConst() {
		return c.BV(a.W, -a.Val)
	}
	return c.mk(OpNeg, a.W, 0, "", a)
}

func (c *Ctx) ZExt(a *Term, w int) *Term {
	if w == a.W {
		return a
	}
	if w < a.W {
		return c.Extract(a, 0, w)
	}
	if a.IsConst() {
		return c.BV(w, a.Val)
	}
	return c.mk(OpZExt, w, 0, "", a)
}

func (c *Ctx) SExt(a *Term, w int) *Term {
	if w == a.W {
		return a
	}
	if w < a.W {
		return c.Extract(a, 0, w)
	}
	if a.IsConst() {
		return c.BV(w, uint64(a.Int()))
	}
	return c.mk(OpSExt, w, 0, "", a)
}

// Extract returns bits [lo+w-1 : lo] of a.
func (c *Ctx) Extract(a *Term, lo, w int) *Term {
	if lo == 0 && w == a.W {
		return a
	}
	if a.IsConst() {
		return c.BV(w, a.Val>>uint(lo))
	}
	if lo == 0 && (a.Op == OpZExt || a.Op == OpSExt) {
		in := a.Args[0]
		if in.W == w {
			return in
		}
		if in.W > w {
			return c.Extract(in, 0, w)
		}
		if a.Op == OpZExt {
			return c.ZExt(in, w)
		}
		return c.SExt(in, w)
	}
	return c.mk(OpExtract, w, uint64(lo), "", a)
}

// BoolToBV converts a bool term to a 1/0 bit-vector of width w.
func (c *Ctx) BoolToBV(b *Term, w int) *Term { return c.Ite(b, c.BV(w, 1), c.BV(w, 0)) }

// Model maps variable names to values (bools as 0/1).
type Model map[string]uint64

// Eval evaluates t under m; variables absent from m are 0/false.
func Eval(t *Term, m Model, memo map[*Term]uint64) uint64 {
	if t.Op == OpConst {
		return t.Val
	}
	if v, ok := memo[t]; ok {
		return v
	}
	var r uint64
	switch t.Op {
	case OpVar:
		r = m[t.Name] & mask(maxw(t.W))
		if t.W == 0 {
			r &= 1
		}
	case OpNot:
		r = 1 - Eval(t.Args[0], m, memo)
	case OpAnd:
		if Eval(t.Args[0], m, memo) == 1 && Eval(t.Args[1], m, memo) == 1 {
			r = 1
		}
	case OpOr:
		if Eval(t.Args[0], m, memo) == 1 || Eval(t.Args[1], m, memo) == 1 {
			r = 1
		}
	case OpIte:
		if Eval(t.Args[0], m, memo) == 1 {
			r = Eval(t.Args[1], m, memo)
		} else {
			r = Eval(t.Args[2], m, memo)
		}
	case OpEq:
		if Eval(t.Args[0], m, memo) == Eval(t.Args[1], m, memo) {
			r = 1
		}
	case OpUlt, OpUle, OpSlt, OpSle:
		x, y := Eval(t.Args[0], m, memo), Eval(t.Args[1], m, memo)
		w := t.Args[0].W
		var b bool
		switch t.Op {
		case OpUlt:
			b = x < y
		case OpUle:
			b = x <= y
		case OpSlt:
			b = sext(x, w) < sext(y, w)
		case OpSle:
			b = sext(x, w) <= sext(y, w)
		}
		if b {
			r = 1
		}
	case OpBNot:
		r = ^Eval(t.Args[0], m, memo) & mask(t.W)
	case OpNeg:
		r = -Eval(t.Args[0], m, memo) & mask(t.W)
	case OpZExt:
		r = Eval(t.Args[0], m, memo)
	case OpSExt:
		r = uint64(sext(Eval(t.Args[0], m, memo), t.Args[0].W)) & mask(t.W)
	case OpExtract:
		r = (Eval(t.Args[0], m, memo) >> uint(t.Val)) & mask(t.W)
	default:
		x, y := Eval(t.Args[0], m, memo), Eval(t.Args[1], m, memo)
		v, ok := foldBin(t.Op, t.W, x, y)
		if !ok {
			panic(fmt.Sprintf("sym.Eval: op %d", t.Op))
		}
		r = v
	}
	memo[t] = r
	return r
}

func maxw(w int) int {
	if w == 0 {
		return 1
	}
	return w
}

func sortOf(w int) string {
	if w == 0 {
		return "Bool"
	}
	return fmt.Sprintf("(_ BitVec %d)", w)
}

// SMTName returns the SMT-LIB symbol used for a variable.
func SMTName(name string) string { return "|" + strings.NewReplacer("|", "!", "\\", "!").Replace(name) + "|" }

func bvconst(w int, v uint64) string {
	if w%4 == 0 {
		return fmt.Sprintf("#x%0*x", w/4, v)
	}
	return fmt.Sprintf("#b%0*b", w, v)
}

// Printer emits SMT-LIB2 definitions for terms, once per node per scope.
type Printer struct {
	Defined map[int]bool
	Out     *strings.Builder
}

func NewPrinter() *Printer { return &Printer{Defined: map[int]bool{}, Out: &strings.Builder{}} }

// Ref makes sure t is defined in the output and returns the symbol naming it.
func (p *Printer) Ref(t *Term) string {
	switch t.Op {
	case OpConst:
		if t.W == 0 {
			if t.Val == 1 {
				return "true"
			}
			return "false"
		}
		return bvconst(t.W, t.Val)
	case OpVar:
		if !p.Defined[t.ID] {
			p.Defined[t.ID] = true
			fmt.Fprintf(p.Out, "(declare-const %s %s)\n", SMTName(t.Name), sortOf(t.W))
		}
		return SMTName(t.Name)
	}
	name := fmt.Sprintf("t%d", t.ID)
	if p.Defined[t.ID] {
		return name
	}
	// iterative post-order to avoid deep recursion on long chains
	type fr struct {
		t *Term
		i int
	}
	stack := []fr{{t, 0}}
	for len(stack) > 0 {
		top := &stack[len(stack)-1]
		if top.i < len(top.t.Args) {
			a := top.t.Args[top.i]
			top.i++
			if a.Op != OpConst && !p.Defined[a.ID] {
				if a.Op == OpVar {
					p.Ref(a)
				} else {
					stack = append(stack, fr{a, 0})
				}
			}
			continue
		}
		n := top.t
		stack = stack[:len(stack)-1]
		if p.Defined[n.ID] {
			continue
		}
		p.Defined[n.ID] = true
		fmt.Fprintf(p.Out, "(define-fun t%d () %s %s)\n", n.ID, sortOf(n.W), p.body(n))
	}
	return name
}

func (p *Printer) body(n *Term) string {
	a := make([]string, len(n.Args))
	for i, x := range n.Args {
		a[i] = p.Ref(x)
	}
	bin := func(s string) string { return "(" + s + " " + a[0] + " " + a[1] + ")" }
	switch n.Op {
	case OpNot:
		return "(not " + a[0] + ")"
	case OpAnd:
		return bin("and")
	case OpOr:
		return bin("or")
	case OpIte:
		return "(ite " + a[0] + " " + a[1] + " " + a[2] + ")"
	case OpEq:
		return bin("=")
	case OpAdd:
		return bin("bvadd")
	case OpSub:
		return bin("bvsub")
	case OpMul:
		return bin("bvmul")
	case OpUDiv:
		return bin("bvudiv")
	case OpURem:
		return bin("bvurem")
	case OpSDiv:
		return bin("bvsdiv")
	case OpSRem:
		return bin("bvsrem")
	case OpBAnd:
		return bin("bvand")
	case OpBOr:
		return bin("bvor")
	case OpBXor:
		return bin("bvxor")
	case OpShl:
		return bin("bvshl")
	case OpLShr:
		return bin("bvlshr")
	case OpAShr:
		return bin("bvashr")
	case OpBNot:
		return "(bvnot " + a[0] + ")"
	case OpNeg:
		return "(bvneg " + a[0] + ")"
	case OpUlt:
		return bin("bvult")
	case OpUle:
		return bin("bvule")
	case OpSlt:
		return bin("bvslt")
	case OpSle:
		return bin("bvsle")
	case OpZExt:
		return fmt.Sprintf("((_ zero_extend %d) %s)", n.W-n.Args[0].W, a[0])
	case OpSExt:
		return fmt.Sprintf("((_ sign_extend %d) %s)", n.W-n.Args[0].W, a[0])
	case OpExtract:
		return fmt.Sprintf("((_ extract %d %d) %s)", int(n.Val)+n.W-1, n.Val, a[0])
	case OpMulHi:
		return fmt.Sprintf("((_ extract 127 64) (bvmul ((_ zero_extend 64) %s) ((_ zero_extend 64) %s)))", a[0], a[1])
	}
	panic(fmt.Sprintf("sym.Printer: op %d", n.Op))
}

// Flush returns and clears the pending output.
func (p *Printer) Flush() string {
	s := p.Out.String()
	p.Out.Reset()
	return s
}

// String renders a term for humans (debugging, samples).
func (t *Term) String() string {
	switch t.Op {
	case OpConst:
		if t.W == 0 {
			return fmt.Sprint(t.Val == 1)
		}
		return fmt.Sprint(t.Val)
	case OpVar:
		return t.Name
	}
	var sb strings.Builder
	fmt.Fprintf(&sb, "(op%d", t.Op)
	for _, a := range t.Args {
		sb.WriteString(" ")
		if a.Op == OpConst || a.Op == OpVar {
			sb.WriteString(a.String())
		} else {
			fmt.Fprintf(&sb, "t%d", a.ID)
		}
	}
	sb.WriteString(")")
	return sb.String()
}

// SignExtend interprets the low w bits of v as a signed integer.
func SignExtend(v uint64, w int) int64 { return sext(v, w) }

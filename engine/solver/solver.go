// Package solver drives persistent SMT solver processes (z3 -in, cvc5 --incremental)
// and one-shot portfolio runs.
package solver

import (
	"bufio"
	"bytes"
	"context"
	"fmt"
	"io"
	"os"
	"os/exec"
	"strconv"
	"strings"
	"sync/atomic"
	"time"
)

type Result int

const (
	Unknown Result = iota
	Sat
	Unsat
)

func (r Result) String() string {
	switch r {
	case Sat:
		return "sat"
	case Unsat:
		return "unsat"
	}
	return "unknown"
}

// Stats are global counters (atomic).
type Stats struct {
	Queries, Sat, Unsat, Unknown, Errors int64
	Nanos                                int64
	Portfolio                            int64
	CrossChecks, Disagreements           int64
}

var Global Stats

// Proc is one persistent solver process.
type Proc struct {
	Kind      string
	cmd       *exec.Cmd
	in        io.WriteCloser
	out       *bufio.Reader
	seq       int
	TimeoutMs int
	// Script accumulates everything sent since the last Reset, so that a query can
	// be re-sent to other solvers as a standalone script.
	Script bytes.Buffer
	depth  int
	dead   bool
	started bool
}

func Start(kind string, timeoutMs int) (*Proc, error) {
	var cmd *exec.Cmd
	switch kind {
	case "z3":
		cmd = exec.Command("z3", "-in")
	case "z3-new":
		cmd = exec.Command("z3-new", "-in")
	case "cvc5":
		cmd = exec.Command("cvc5", "--incremental", "--produce-models", "--lang=smt2")
	default:
		return nil, fmt.Errorf("unknown solver %q", kind)
	}
	in, err := cmd.StdinPipe()
	if err != nil {
		return nil, err
	}
	outp, err := cmd.StdoutPipe()
	if err != nil {
		return nil, err
	}
	cmd.Stderr = os.Stderr
	if err := cmd.Start(); err != nil {
		return nil, err
	}
	p := &Proc{Kind: kind, cmd: cmd, in: in, out: bufio.NewReaderSize(outp, 1<<16), TimeoutMs: timeoutMs}
	p.Reset()
	return p, nil
}

func (p *Proc) Alive() bool { return !p.dead }

// Prestart launches n solver processes in the background and returns them in a channel.
func Prestart(kind string, n int, timeoutMs int) chan *Proc {
	ch := make(chan *Proc, n)
	for i := 0; i < n; i++ {
		go func() {
			p, err := Start(kind, timeoutMs)
			if err == nil {
				// force start-up to complete
				p.roundTrip("")
				ch <- p
			}
		}()
	}
	return ch
}

func (p *Proc) Close() {
	if p == nil || p.cmd == nil {
		return
	}
	p.in.Close()
	done := make(chan struct{})
	go func() { p.cmd.Wait(); close(done) }()
	select {
	case <-done:
	case <-time.After(500 * time.Millisecond):
		p.cmd.Process.Kill()
	}
}

func (p *Proc) preamble() string {
	if p.Kind == "cvc5" {
		return fmt.Sprintf("(set-option :produce-models true)\n(set-logic ALL)\n(set-option :tlimit-per %d)\n", p.TimeoutMs)
	}
	if os.Getenv("VSYM_NOTIMEOUT") != "" {
		return "(set-option :produce-models true)\n"
	}
	return fmt.Sprintf("(set-option :produce-models true)\n(set-option :timeout %d)\n", p.TimeoutMs)
}

// Reset clears the solver state. The first call configures the process; later calls
// pop the per-path scope and open a new one ((reset) proved slow under 16 parallel z3s).
func (p *Proc) Reset() {
	p.Script.Reset()
	if !p.started {
		p.started = true
		p.raw(p.preamble())
	} else {
		p.raw("(pop 1)\n")
		if p.Kind != "cvc5" {
			p.raw(fmt.Sprintf("(set-option :timeout %d)\n", p.TimeoutMs))
		}
	}
	p.raw("(push 1)\n")
	p.depth = 0
	p.Script.WriteString(p.preamble())
}

func (p *Proc) raw(s string) {
	if p.dead {
		return
	}
	if _, err := io.WriteString(p.in, s); err != nil {
		p.dead = true
	}
}

// Send writes declarations/definitions/assertions (no response expected).
func (p *Proc) Send(s string) {
	if s == "" {
		return
	}
	p.Script.WriteString(s)
	p.raw(s)
}

func (p *Proc) Push() { p.depth++; p.Send("(push 1)\n") }
func (p *Proc) Pop()  { p.depth--; p.Send("(pop 1)\n") }

func (p *Proc) Assert(sym string) { p.Send("(assert " + sym + ")\n") }

// roundTrip sends cmd, then an echo marker, and returns all output lines before the marker.
func (p *Proc) roundTrip(cmd string) ([]string, error) {
	if p.dead {
		return nil, fmt.Errorf("solver dead")
	}
	p.seq++
	marker := fmt.Sprintf("<<sync%d>>", p.seq)
	p.raw(cmd + "(echo \"" + marker + "\")\n")
	var lines []string
	for {
		line, err := p.out.ReadString('\n')
		if err != nil {
			p.dead = true
			return lines, err
		}
		line = strings.TrimRight(line, "\r\n")
		if strings.Contains(line, marker) {
			return lines, nil
		}
		lines = append(lines, line)
	}
}

// Check runs (check-sat) in the current context.
func (p *Proc) Check() Result {
	t0 := time.Now()
	cmd := "(check-sat)\n"
	if p.Kind != "cvc5" {
		if t := os.Getenv("VSYM_TACTIC"); t != "" {
			cmd = "(check-sat-using " + t + ")\n"
		}
	}
	lines, err := p.roundTrip(cmd)
	atomic.AddInt64(&Global.Nanos, int64(time.Since(t0)))
	atomic.AddInt64(&Global.Queries, 1)
	if d := os.Getenv("VSYM_DUMP_SLOW"); d != "" && time.Since(t0) > 500*time.Millisecond {
		os.WriteFile(fmt.Sprintf("%s/slow-%d-%d.smt2", d, os.Getpid(), time.Now().UnixNano()), []byte(p.Script.String()+"(check-sat)\n"), 0o644)
	}
	if os.Getenv("VSYM_QTIME") != "" {
		fmt.Fprintf(os.Stderr, "qtime %s %v\n", p.Kind, time.Since(t0))
	}
	res := Unknown
	bad := err != nil
	for _, l := range lines {
		switch {
		case strings.HasPrefix(l, "(error"):
			bad = true
			fmt.Fprintf(os.Stderr, "solver %s: %s\n", p.Kind, l)
		case l == "sat":
			res = Sat
		case l == "unsat":
			res = Unsat
		}
	}
	if bad {
		atomic.AddInt64(&Global.Errors, 1)
		res = Unknown
	}
	switch res {
	case Sat:
		atomic.AddInt64(&Global.Sat, 1)
	case Unsat:
		atomic.AddInt64(&Global.Unsat, 1)
	default:
		atomic.AddInt64(&Global.Unknown, 1)
	}
	return res
}

// Values runs (get-value) for the named symbols (already SMT-quoted) after a sat answer.
// Returns values by position; bools as 0/1.
func (p *Proc) Values(syms []string) ([]uint64, error) {
	if len(syms) == 0 {
		return nil, nil
	}
	lines, err := p.roundTrip("(get-value (" + strings.Join(syms, " ") + "))\n")
	if err != nil {
		return nil, err
	}
	txt := strings.Join(lines, " ")
	if strings.Contains(txt, "(error") {
		return nil, fmt.Errorf("get-value: %s", txt)
	}
	return parseValues(txt, len(syms))
}

// parseValues parses "((sym val) (sym val) ...)" where sym may be |quoted|.
func parseValues(s string, n int) ([]uint64, error) {
	out := make([]uint64, 0, n)
	i := 0
	skipWS := func() {
		for i < len(s) && (s[i] == ' ' || s[i] == '\n' || s[i] == '\t') {
			i++
		}
	}
	skipWS()
	if i >= len(s) || s[i] != '(' {
		return nil, fmt.Errorf("parseValues: %q", s)
	}
	i++
	for {
		skipWS()
		if i >= len(s) {
			return nil, fmt.Errorf("parseValues: truncated")
		}
		if s[i] == ')' {
			break
		}
		if s[i] != '(' {
			return nil, fmt.Errorf("parseValues: expected ( at %d in %q", i, s)
		}
		i++
		skipWS()
		// symbol
		if s[i] == '|' {
			j := strings.IndexByte(s[i+1:], '|')
			i += j + 2
		} else {
			for i < len(s) && s[i] != ' ' {
				i++
			}
		}
		skipWS()
		// value: #x.., #b.., true, false, (_ bvN w)
		st := i
		depth := 0
		for i < len(s) {
			if s[i] == '(' {
				depth++
			} else if s[i] == ')' {
				if depth == 0 {
					break
				}
				depth--
			}
			i++
		}
		tok := strings.TrimSpace(s[st:i])
		i++ // closing paren of pair
		var v uint64
		switch {
		case tok == "true":
			v = 1
		case tok == "false":
			v = 0
		case strings.HasPrefix(tok, "#x"):
			x, err := strconv.ParseUint(tok[2:], 16, 64)
			if err != nil {
				return nil, err
			}
			v = x
		case strings.HasPrefix(tok, "#b"):
			x, err := strconv.ParseUint(tok[2:], 2, 64)
			if err != nil {
				return nil, err
			}
			v = x
		case strings.HasPrefix(tok, "(_ bv"):
			f := strings.Fields(tok[5:])
			x, err := strconv.ParseUint(f[0], 10, 64)
			if err != nil {
				return nil, err
			}
			v = x
		default:
			return nil, fmt.Errorf("parseValues: value %q", tok)
		}
		out = append(out, v)
	}
	if len(out) != n {
		return nil, fmt.Errorf("parseValues: got %d values, want %d", len(out), n)
	}
	return out, nil
}

// PortfolioCheck runs a standalone script (declarations+assertions, without check-sat)
// on several solvers in parallel and returns the first definite answer.
func PortfolioCheck(script string, timeout time.Duration) (Result, string) {
	atomic.AddInt64(&Global.Portfolio, 1)
	type ans struct {
		r    Result
		who  string
	}
	f, err := os.CreateTemp("", "vsym-q-*.smt2")
	if err != nil {
		return Unknown, ""
	}
	defer os.Remove(f.Name())
	// strip solver-specific option lines
	var sb strings.Builder
	for _, l := range strings.Split(script, "\n") {
		if strings.HasPrefix(l, "(set-option :timeout") || strings.HasPrefix(l, "(set-option :tlimit-per") || strings.HasPrefix(l, "(set-logic") {
			continue
		}
		sb.WriteString(l)
		sb.WriteString("\n")
	}
	sb.WriteString("(check-sat)\n")
	f.WriteString("(set-logic ALL)\n" + sb.String())
	f.Close()
	ctx, cancel := context.WithTimeout(context.Background(), timeout)
	defer cancel()
	cmds := [][]string{
		{"cvc5", "--lang=smt2", "--incremental", f.Name()},
		{"cvc5", "--lang=smt2", "--incremental", "--solve-bv-as-int=sum", f.Name()},
		{"z3-new", f.Name()},
		{"z3", f.Name()},
	}
	ch := make(chan ans, len(cmds))
	t0 := time.Now()
	for _, c := range cmds {
		c := c
		go func() {
			out, _ := exec.CommandContext(ctx, c[0], c[1:]...).Output()
			s := string(out)
			r := Unknown
			if !strings.Contains(s, "(error") {
				first := strings.TrimSpace(strings.SplitN(s, "\n", 2)[0])
				if first == "sat" {
					r = Sat
				} else if first == "unsat" {
					r = Unsat
				}
			}
			ch <- ans{r, strings.Join(c[:len(c)-1], " ")}
		}()
	}
	res, who := Unknown, ""
	for range cmds {
		a := <-ch
		if a.r != Unknown {
			res, who = a.r, a.who
			cancel()
			break
		}
	}
	atomic.AddInt64(&Global.Nanos, int64(time.Since(t0)))
	return res, who
}

// CrossCheck re-decides a standalone script with cvc5 only (second opinion on a z3 answer).
func CrossCheck(script string, timeout time.Duration) Result {
	f, err := os.CreateTemp("", "vsym-x-*.smt2")
	if err != nil {
		return Unknown
	}
	defer os.Remove(f.Name())
	var sb strings.Builder
	for _, l := range strings.Split(script, "\n") {
		if strings.HasPrefix(l, "(set-option :timeout") || strings.HasPrefix(l, "(set-option :tlimit-per") || strings.HasPrefix(l, "(set-logic") {
			continue
		}
		sb.WriteString(l)
		sb.WriteString("\n")
	}
	f.WriteString("(set-logic ALL)\n" + sb.String() + "(check-sat)\n")
	f.Close()
	ctx, cancel := context.WithTimeout(context.Background(), timeout)
	defer cancel()
	out, _ := exec.CommandContext(ctx, "cvc5", "--lang=smt2", "--incremental", f.Name()).Output()
	atomic.AddInt64(&Global.CrossChecks, 1)
	first := strings.TrimSpace(strings.SplitN(string(out), "\n", 2)[0])
	switch first {
	case "sat":
		return Sat
	case "unsat":
		return Unsat
	}
	return Unknown
}

# Table of claimed / not-applicable properties (input of gen_manifest.py).
_tb = "trusted base: the vsym interpreter (validated per run by native concordance of path models), go/ssa, z3/cvc5; boundary models listed in the evidence"
CLAIMED["C16"] = dict(
    text="Bounded symbolic model checking of Invert/Normalize/String/Schema.Rels from their SSA: every law is an SMT query over all names (all 256 byte values per position) up to the length bound and both cardinalities; the schema half covers every coherent schema of 2 types and up to 2 relationships/pairs, both build orders and the explored map iteration orders. Unbounded names and larger schemas are outside the claim.",
    note=_tb + "; sort.Slice modelled as the insertion sort pdqsort performs for n<=12; map iteration order explored as insertion/reversed (quick) or all permutations of <=4 entries (thorough) inside buildRels/Rels only",
    technique="bounded symbolic execution of go/ssa + SMT (QF_BV), counterexamples replayed natively")
_pending = "check not built yet in this session (engine exists; harness pending) — see DESIGN.md build order"
for _p in ["C01","C02","C03","C04","C05","C06","C07","C08","C09","C10","C11","C12","C13","C14","C15","C17","C18","C19","C20"]:
    NA[_p] = _pending

# Table of claimed / not-applicable properties (input of gen_manifest.py).
_tb = "trusted base: the vsym interpreter (validated per run by native concordance of path models), go/ssa, z3/cvc5; boundary models listed in the evidence"
CLAIMED["C16"] = dict(
    text="Bounded symbolic model checking of Invert/Normalize/String/Schema.Rels from their SSA: every law is an SMT query over all names (all 256 byte values per position) up to the length bound and both cardinalities; the schema half covers every coherent schema of 2 types and up to 2 relationships/pairs, both build orders and the explored map iteration orders. Unbounded names and larger schemas are outside the claim.",
    note=_tb + "; sort.Slice modelled as the insertion sort pdqsort performs for n<=12; map iteration order explored as insertion/reversed (quick) or all permutations of <=4 entries (thorough) inside buildRels/Rels only",
    technique="bounded symbolic execution of go/ssa + SMT (QF_BV), counterexamples replayed natively")
CLAIMED["C15"] = dict(
    text="Bounded symbolic model checking of Schema.Check against a transcription of the statement: every schema of T<=2 (thorough 3) types with <=2 relationships each, every name an independent symbolic byte string (so every equality pattern between names occurs), FromType free, one-way and two-way; soundness (empty iff coherent), one error per offender, no panic, schema unchanged (deep equality with a snapshot) are SMT queries on every path.",
    note=_tb + "; fmt.Errorf modelled as a fresh non-nil error (messages are not observed); names of length 0..1 only (Check compares names for equality/emptiness only)",
    technique="bounded symbolic execution of go/ssa + SMT (QF_BV), counterexamples replayed natively")
CLAIMED["C14"] = dict(
    text="One inductive step from an arbitrary well-formed schema (symbolic pre-state of <=2 (thorough 3) types with 0..1 attribute and relationship each, with and without spare slice capacity) through each edit operation with symbolic arguments: no panic, invariant re-established, lookups agree with the list, error implies deep-equal to the pre-state snapshot, removal of an absent item is a no-op, AddTwoWayRel succeeds in both directions and within one type. The invariant is assumed and re-established, so histories of any length within the shape bound are covered.",
    note=_tb + "; names of length 0..1 (single symbolic byte), fmt.Errorf modelled as fresh error; nil map and empty map are distinguished by the deep equality (as reflect.DeepEqual does)",
    technique="inductive-step bounded symbolic execution of go/ssa + SMT (QF_BV), counterexamples replayed natively")
_pending = "check not built yet in this session (engine exists; harness pending) — see DESIGN.md build order"
for _p in ["C01","C02","C03","C04","C05","C06","C07","C08","C09","C10","C11","C12","C13","C17","C18","C19","C20"]:
    NA[_p] = _pending

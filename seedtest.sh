#!/bin/sh
# usage: seedtest.sh <property> <patch.diff> [tier]  — applies a seeded change to /repo (or $VERIF_REPO), runs the
# check, undoes it and puts the evidence file of the unchanged tree back.
P="$1"; PATCH="$2"; TIER="${3:-quick}"
R="${VERIF_REPO:-/repo}"
cd "$R" || exit 2
git diff --quiet || { echo "$R not clean"; exit 2; }
git apply "$PATCH" || { echo "patch does not apply"; exit 2; }
OUT=$(mktemp /tmp/seedtest.$P.XXXXXX)
# the evidence of the unchanged tree is put back afterwards (this run describes a changed one)
EV=/verif/evidence/$P.json
[ -f "$EV" ] && cp "$EV" "$OUT.ev"
/verif/check "$P" "$TIER" > "$OUT" 2>&1
rc=$?
[ -f "$OUT.ev" ] && mv "$OUT.ev" "$EV"
git -C "$R" checkout -- .
echo "exit=$rc"
grep -c "^VIOLATION" "$OUT" | sed 's/^/violation lines: /'
grep "^VIOLATION" "$OUT" | sed 's/replay=[^ ]*//' | sort | uniq -c | head -8
grep "INCONCLUSIVE\|unsupported x\|property " "$OUT" | head -5
rm -f "$OUT"

#!/bin/sh
# usage: seedtest.sh <property> <patch.diff> [tier]  — applies a seeded change to /repo, runs the check, undoes it.
P="$1"; PATCH="$2"; TIER="${3:-quick}"
cd /repo || exit 2
git diff --quiet || { echo "/repo not clean"; exit 2; }
git apply "$PATCH" || { echo "patch does not apply"; exit 2; }
/verif/check "$P" "$TIER" > /tmp/seedtest.$P.out 2>&1
rc=$?
git -C /repo checkout -- .
echo "exit=$rc"
grep -c "^VIOLATION" /tmp/seedtest.$P.out | sed 's/^/violation lines: /'
grep "^VIOLATION" /tmp/seedtest.$P.out | sed 's/replay=[^ ]*//' | sort | uniq -c | head -8
grep "INCONCLUSIVE\|unsupported x\|property " /tmp/seedtest.$P.out | head -5
rm -f /tmp/seedtest.$P.out

#!/bin/sh
# usage: fixrevert.sh — for every "fix:" commit of /repo whose reverse patch still applies (seeded/fix-reverts/),
# takes the repair back, runs the quick check of the property it was found by and expects a VIOLATION; /repo is
# restored after each. One line per commit.
cd /verif/seeded/fix-reverts || exit 2
for f in *.diff; do
  c=${f%.diff}
  P=$(python3 -c "import json;print(' '.join(json.load(open('index.json')).get('$c',[])))")
  for p in $P; do
    out=$(/verif/seedtest.sh "$p" "/verif/seeded/fix-reverts/$f" 2>&1)
    rc=$(echo "$out" | sed -n 's/^exit=//p')
    ob=$(echo "$out" | grep VIOLATION | sed 's/.*obligation=\([^ ]*\).*/\1/' | sort -u | tr '\n' ' ')
    echo "$c $p exit=$rc caught_by=$ob"
  done
done

#!/bin/sh
# Runs the repository's own suite (guard off: there is no guarded code) and fails loudly.
cd /repo && GOFLAGS=-mod=mod GOPROXY=off GOSUMDB=off GOTOOLCHAIN=local go test -vet=off -count=1 ./... > /tmp/repo_test.out 2>&1
rc=$?
tail -3 /tmp/repo_test.out
rm -f /tmp/repo_test.out
[ $rc -eq 0 ] && echo "SUITE OK" || echo "SUITE FAILED"
exit $rc
